//@include ../_shared/stepsize_spec.rs

// =====================================================================================
// small facts of real arithmetic used below (proved, no axioms)
// =====================================================================================
pub proof fn lemma_div_le(a: real, b: real, c: real)
    requires a <= b, c > 0real
    ensures a / c <= b / c
{
    lemma_div_cancel(a, c); lemma_div_cancel(b, c);
    let x = a / c; let y = b / c;
    assert(x <= y) by(nonlinear_arith) requires x * c == a, y * c == b, a <= b, c > 0real;
}
pub proof fn lemma_div_eq(a: real, b: real, c: real, d: real)
    requires b > 0real, d > 0real, a * d == c * b
    ensures a / b == c / d
{
    let x = a / b; let y = c / d;
    lemma_div_cancel(a, b); lemma_div_cancel(c, d);
    assert((x - y) * (b * d) == 0real) by(nonlinear_arith) requires x * b == a, y * d == c, a * d == c * b;
    assert(b * d > 0real) by(nonlinear_arith) requires b > 0real, d > 0real;
    assert(x == y) by(nonlinear_arith) requires (x - y) * (b * d) == 0real, b * d > 0real;
}
/// 0 < 1/d <= 1 for d >= 1
pub proof fn lemma_recip_unit(d: real)
    requires d >= 1real
    ensures 0real < 1real / d, 1real / d <= 1real
{
    lemma_div_cancel(1real, d);
    let x = 1real / d;
    assert(0real < x && x <= 1real) by(nonlinear_arith) requires x * d == 1real, d >= 1real;
}
/// a convex combination lies between its two points
pub proof fn lemma_convex(eta: real, x: real, y: real)
    requires 0real <= eta, eta <= 1real
    ensures min_r(x, y) <= eta * x + (1real - eta) * y, eta * x + (1real - eta) * y <= max_r(x, y)
{
    let lo = min_r(x, y); let hi = max_r(x, y);
    lemma_mul_le(lo, x, eta); lemma_mul_le(x, hi, eta);
    lemma_mul_le(lo, y, 1real - eta); lemma_mul_le(y, hi, 1real - eta);
    assert(eta * lo + (1real - eta) * lo == lo) by(nonlinear_arith);
    assert(eta * hi + (1real - eta) * hi == hi) by(nonlinear_arith);
}
/// exp(-x) = 1 / exp(x)
pub proof fn lemma_exp_neg(x: real)
    ensures exp_r(-x) * exp_r(x) == 1real, exp_r(x) > 0real, exp_r(-x) > 0real
{
    broadcast use ax_exp_zero;
    ax_exp_add(-x, x); ax_exp_pos(x); ax_exp_pos(-x);
    assert(-x + x == 0real);
}
/// exp is (weakly) increasing
pub proof fn lemma_exp_le(x: real, y: real)
    requires x <= y
    ensures exp_r(x) <= exp_r(y)
{
    ax_exp_mono(y, x);
}

// =====================================================================================
// C07.5  per-leapfrog acceptance statistics
// =====================================================================================

/// the code computes a as exp(min(diff, 0)) and s as 2 exp(min(diff, 0)) / (1 + exp(diff)) with
/// diff = E_init - E_end = -dE: these are a(dE) and s(dE) of the property text
// [C07.5]
pub broadcast proof fn lemma_acc_code_form(diff: real)
    ensures #[trigger] exp_r(min_r(diff, 0real)) == acc_asym(-diff),
            2real * exp_r(min_r(diff, 0real)) / (1real + exp_r(diff)) == acc_symm(-diff),
{
    broadcast use ax_exp_zero;
    ax_exp_mono(diff, 0real); ax_exp_mono(0real, diff);
    assert(-(-diff) == diff);
}

/// 0 < a(dE) <= 1 and 0 < s(dE) <= 1
// [C07.5]
pub proof fn lemma_acc_bounds(de: real)
    ensures 0real < acc_asym(de), acc_asym(de) <= 1real, 0real < acc_symm(de), acc_symm(de) <= 1real
{
    let u = exp_r(-de);
    ax_exp_pos(-de);
    let mn = min_r(1real, u);
    let d = 1real + u;
    lemma_div_sign(2real * mn, d);
    lemma_div_le(2real * mn, d, d);
    lemma_div_cancel(1real, d);
    assert(d / d == 1real) by(nonlinear_arith) requires d > 0real;
}

/// the symmetric statistic does not depend on the sign of the energy error
// [C07.5]
pub proof fn lemma_acc_symm_symmetric(de: real)
    ensures acc_symm(de) == acc_symm(-de)
{
    let u = exp_r(-de); let v = exp_r(de);
    lemma_exp_neg(de);
    assert(-(-de) == de);
    assert(acc_symm(-de) == 2real * min_r(1real, v) / (1real + v));
    if u <= 1real {
        assert(v >= 1real) by(nonlinear_arith) requires u * v == 1real, 0real < u, u <= 1real, v > 0real;
        assert((2real * u) * (1real + v) == (2real * 1real) * (1real + u)) by(nonlinear_arith) requires u * v == 1real;
        lemma_div_eq(2real * u, 1real + u, 2real * 1real, 1real + v);
    } else {
        assert(v <= 1real) by(nonlinear_arith) requires u * v == 1real, u > 1real, v > 0real;
        assert((2real * 1real) * (1real + v) == (2real * v) * (1real + u)) by(nonlinear_arith) requires u * v == 1real;
        lemma_div_eq(2real * 1real, 1real + u, 2real * v, 1real + v);
    }
}

// =====================================================================================
// C07.2  monotone response of dual averaging to the acceptance history
// =====================================================================================

/// the state order under which da_next is monotone: (hbar down, x up, xbar up), same mu and counter
pub open spec fn da_le(s: DAView, t: DAView) -> bool {
    s.hbar >= t.hbar && s.x <= t.x && s.xbar <= t.xbar && s.mu == t.mu && s.m == t.m
}

/// the state after feeding the acceptance statistics `acc` (oldest first) to the estimator
pub open spec fn da_run(s0: DAView, c: DACfg, target: real, acc: Seq<real>) -> DAView
    decreases acc.len()
{
    if acc.len() == 0 { s0 } else { da_next(da_run(s0, c, target, acc.drop_last()), c, acc.last(), target) }
}

/// pointwise order on histories
pub open spec fn seq_le(a: Seq<real>, b: Seq<real>) -> bool {
    a.len() == b.len() && forall|j: int| 0 <= j < a.len() ==> #[trigger] a[j] <= b[j]
}

/// the weights of one update: 0 < w <= 1, 0 < eta <= 1, sqrt(m) >= 0
pub proof fn lemma_da_weights(m: int, c: DACfg)
    requires da_cfg_ok(c), m >= 1
    ensures
        0real < 1real / (i2r(m) + c.t0), 1real / (i2r(m) + c.t0) <= 1real,
        0real < pow_r(i2r(m), -c.kappa), pow_r(i2r(m), -c.kappa) <= 1real,
        sqrt_r(i2r(m)) >= 0real,
{
    lemma_recip_unit(i2r(m) + c.t0);
    ax_pow_ge1_nonpos(i2r(m), -c.kappa);
    ax_sqrt(i2r(m));
}

/// one update is monotone in the acceptance statistic and in the state order
// [C07.2]
pub proof fn lemma_da_next_mono(s: DAView, t: DAView, c: DACfg, a: real, b: real, target: real)
    requires da_cfg_ok(c), s.m >= 1, da_le(s, t), a <= b
    ensures da_le(da_next(s, c, a, target), da_next(t, c, b, target))
{
    lemma_da_weights(s.m, c);
    let mr = i2r(s.m);
    let w = 1real / (mr + c.t0);
    let hs = (1real - w) * s.hbar + w * (target - a);
    let ht = (1real - w) * t.hbar + w * (target - b);
    lemma_mul_le(t.hbar, s.hbar, 1real - w);
    lemma_mul_le(target - b, target - a, w);
    assert(hs >= ht);
    let q = sqrt_r(mr);
    lemma_mul_le(ht, hs, q);
    lemma_div_le(q * ht, q * hs, c.gamma);
    let xs = min_r(s.mu - q * hs / c.gamma, c.ln_max);
    let xt = min_r(t.mu - q * ht / c.gamma, c.ln_max);
    assert(xs <= xt);
    let eta = pow_r(mr, -c.kappa);
    lemma_mul_le(xs, xt, eta);
    lemma_mul_le(s.xbar, t.xbar, 1real - eta);
}

pub proof fn lemma_da_run_m(s0: DAView, c: DACfg, target: real, acc: Seq<real>)
    ensures da_run(s0, c, target, acc).m == s0.m + acc.len(), da_run(s0, c, target, acc).mu == s0.mu
    decreases acc.len()
{
    if acc.len() > 0 { lemma_da_run_m(s0, c, target, acc.drop_last()); }
}

/// histories: a pointwise higher acceptance history (from a higher state) ends in a higher state
// [C07.2]
pub proof fn lemma_da_run_mono(s0: DAView, t0: DAView, c: DACfg, target: real, acc: Seq<real>, acc2: Seq<real>)
    requires da_cfg_ok(c), s0.m >= 1, da_le(s0, t0), seq_le(acc, acc2)
    ensures da_le(da_run(s0, c, target, acc), da_run(t0, c, target, acc2))
    decreases acc.len()
{
    if acc.len() > 0 {
        let p = acc.drop_last(); let p2 = acc2.drop_last();
        assert(seq_le(p, p2)) by {
            assert forall|j: int| 0 <= j < p.len() implies p[j] <= p2[j] by {
                assert(p[j] == acc[j] && p2[j] == acc2[j]);
            }
        }
        lemma_da_run_mono(s0, t0, c, target, p, p2);
        lemma_da_run_m(s0, c, target, p);
        assert(acc[acc.len() - 1] <= acc2[acc.len() - 1]);
        lemma_da_next_mono(da_run(s0, c, target, p), da_run(t0, c, target, p2), c, acc.last(), acc2.last(), target);
    }
}

/// C07.2 as the property words it: raising any single acceptance statistic acc[i] to v (all others
/// equal) never lowers x, nor xbar, nor raises hbar of ANY later state (the state after j updates),
/// hence never lowers any later step size exp(x) / averaged step size exp(xbar); earlier states
/// are untouched
// [C07.2]
pub proof fn lemma_raise_one_never_lowers(s0: DAView, c: DACfg, target: real, acc: Seq<real>, i: int, v: real, j: int)
    requires da_cfg_ok(c), s0.m >= 1, 0 <= i < acc.len(), v >= acc[i], 0 <= j <= acc.len()
    ensures ({
        let p = da_run(s0, c, target, acc.take(j));
        let q = da_run(s0, c, target, acc.update(i, v).take(j));
        &&& q.x >= p.x && q.xbar >= p.xbar && q.hbar <= p.hbar
        &&& exp_r(q.x) >= exp_r(p.x)
        &&& exp_r(q.xbar) >= exp_r(p.xbar)
        &&& (j <= i ==> q == p)
    })
{
    let a1 = acc.take(j); let a2 = acc.update(i, v).take(j);
    assert(seq_le(a1, a2)) by {
        assert forall|k: int| 0 <= k < a1.len() implies a1[k] <= a2[k] by {
            assert(a1[k] == acc[k]);
            assert(a2[k] == acc.update(i, v)[k]);
        }
    }
    lemma_da_run_mono(s0, s0, c, target, a1, a2);
    let p = da_run(s0, c, target, a1);
    let q = da_run(s0, c, target, a2);
    lemma_exp_le(p.x, q.x);
    lemma_exp_le(p.xbar, q.xbar);
    if j <= i {
        assert(a1 =~= a2);
    }
}

// =====================================================================================
// C07.3  bounds: 0 < exp(x) <= max_step_size, exp(xbar) a weighted (geometric) average
// =====================================================================================

/// every update yields a positive step size not above max_step_size, and the new averaged iterate
/// is a convex combination (weight eta = m^-kappa in (0, 1]) of the new iterate and the old average
// [C07.3]
pub proof fn lemma_da_next_bounds(s: DAView, c: DACfg, a: real, target: real, max_step: real)
    requires da_cfg_ok(c), s.m >= 1, max_step > 0real, c.ln_max == ln_r(max_step)
    ensures ({
        let n = da_next(s, c, a, target);
        let eta = pow_r(i2r(s.m), -c.kappa);
        &&& 0real < exp_r(n.x) && exp_r(n.x) <= max_step
        &&& 0real < eta && eta <= 1real && n.xbar == eta * n.x + (1real - eta) * s.xbar
        &&& min_r(n.x, s.xbar) <= n.xbar && n.xbar <= max_r(n.x, s.xbar)
        &&& n.x <= c.ln_max
    })
{
    let n = da_next(s, c, a, target);
    lemma_da_weights(s.m, c);
    ax_exp_pos(n.x);
    lemma_exp_le(n.x, c.ln_max);
    ax_exp_ln(max_step);
    lemma_convex(pow_r(i2r(s.m), -c.kappa), n.x, s.xbar);
}

pub proof fn lemma_da_run_le(s0: DAView, c: DACfg, target: real, acc: Seq<real>)
    requires da_cfg_ok(c), s0.m >= 1
    ensures
        da_run(s0, c, target, acc).xbar <= max_r(c.ln_max, s0.xbar),
        acc.len() >= 1 ==> da_run(s0, c, target, acc).x <= c.ln_max,
    decreases acc.len()
{
    if acc.len() > 0 {
        let p = acc.drop_last();
        lemma_da_run_le(s0, c, target, p);
        lemma_da_run_m(s0, c, target, p);
        let s = da_run(s0, c, target, p);
        lemma_da_weights(s.m, c);
        let n = da_next(s, c, acc.last(), target);
        lemma_convex(pow_r(i2r(s.m), -c.kappa), n.x, s.xbar);
    }
}

/// after any non-empty history: 0 < exp(x) <= max_step_size and 0 < exp(xbar) <= max(max_step_size, initial_step)
// [C07.3]
pub proof fn lemma_da_run_bounds(s0: DAView, c: DACfg, target: real, acc: Seq<real>, max_step: real, init_step: real)
    requires
        da_cfg_ok(c), s0.m >= 1, max_step > 0real, init_step > 0real,
        c.ln_max == ln_r(max_step), s0.xbar == ln_r(init_step), acc.len() >= 1,
    ensures ({
        let n = da_run(s0, c, target, acc);
        &&& 0real < exp_r(n.x) && exp_r(n.x) <= max_step
        &&& 0real < exp_r(n.xbar) && exp_r(n.xbar) <= max_r(max_step, init_step)
    })
{
    let n = da_run(s0, c, target, acc);
    lemma_da_run_le(s0, c, target, acc);
    ax_exp_pos(n.x); ax_exp_pos(n.xbar);
    ax_exp_ln(max_step); ax_exp_ln(init_step);
    lemma_exp_le(n.x, c.ln_max);
    lemma_exp_le(n.xbar, max_r(c.ln_max, s0.xbar));
}

/// the same for the state machine as the code seeds it (DualAverage::new refines da_init)
// [C07.3]
pub proof fn lemma_da_init_run_bounds(o: DualAverageOptions, init_step: real, target: real, acc: Seq<real>)
    requires da_cfg_ok(da_cfg(o)), o.max_step_size.r() > 0real, init_step > 0real, acc.len() >= 1
    ensures ({
        let n = da_run(da_init(o, init_step), da_cfg(o), target, acc);
        &&& 0real < exp_r(n.x) && exp_r(n.x) <= o.max_step_size.r()
        &&& 0real < exp_r(n.xbar) && exp_r(n.xbar) <= max_r(o.max_step_size.r(), init_step)
    })
{
    lemma_da_run_bounds(da_init(o, init_step), da_cfg(o), target, acc, o.max_step_size.r(), init_step);
}
