// Prelude of unit `stepsize`: everything the extracted code calls but that is not extracted here.
// Each contract below is an ASSUMPTION of this unit (see DESIGN §6).
use core::marker::PhantomData;
use core::fmt::Debug;

pub enum Either<L, R> { Left(L), Right(R) }
/// opaque: the collector only looks at `divergence_info.is_some()`
pub struct DivergenceInfo { pub code: u64 }

// ---- Math / Point / State façade (same ghost view as _shared/dyn_facade.rs)
pub trait Math: Sized {}
//@include ../_shared/state_view.rs
pub trait Point<M: Math>: Sized {}

#[verifier::external_body]
#[verifier::reject_recursive_types(M)]
#[verifier::reject_recursive_types(P)]
pub struct State<M: Math, P: Point<M>> { _m: PhantomData<M>, _p: PhantomData<P> }
impl<M: Math, P: Point<M>> State<M, P> {
    pub uninterp spec fn view(&self) -> StateView;
    /// A-state-energy: `State::energy()` reads the total energy of the state (pure getter in /repo)
    #[verifier::external_body]
    pub fn energy(&self) -> (r: F) ensures r.r() == self.view().energy { unimplemented!() }
}

// ---- the Collector trait as seen by an implementor: the per-impl contract is supplied by the
// ghost items spliced into the extracted impl (impl_extra.rs).  The default `register_draw`
// (a no-op that AcceptanceRateCollector does not override) is not declared.
pub trait Collector<M: Math, P: Point<M>> {
    spec fn register_leapfrog_pre(&self) -> bool;
    spec fn register_leapfrog_post(&self, post: &Self, start: StateView, end: StateView, diverged: bool) -> bool;
    fn register_leapfrog(
        &mut self,
        _math: &mut M,
        _start: &State<M, P>,
        end: &State<M, P>,
        divergence_info: Option<&DivergenceInfo>,
    )
        requires old(self).register_leapfrog_pre()
        ensures old(self).register_leapfrog_post(final(self), _start.view(), end.view(), divergence_info is Some);

    spec fn register_init_post(&self, post: &Self, state: StateView) -> bool;
    fn register_init(&mut self, _math: &mut M, state: &State<M, P>, _options: &NutsOptions)
        ensures old(self).register_init_post(final(self), state.view());
}
