//@include ../_shared/stepsize_spec.rs

/// [C01.6] one fair coin per direction (text of unit nuts; the shared façade's DistSpec<Direction> impl refers to it)
pub open spec fn dir_sample_post(l0: Seq<RngEv>, l1: Seq<RngEv>, r: Direction) -> bool {
    l1 == l0.push(RngEv::Coin(r is Forward))
}

// =====================================================================================
// C07.6  the initial doubling / halving search, written from the property text
// =====================================================================================

/// step size of trial k (k = 0, 1, ...) of a search that starts at `init` and doubles (`up`) or halves it
pub open spec fn trial_step(init: real, up: bool, k: nat) -> real
    decreases k
{
    if k == 0 { init } else if up { trial_step(init, up, (k - 1) as nat) * 2real } else { trial_step(init, up, (k - 1) as nat) / 2real }
}

/// the one-step acceptance `acc` of a trial at step size `step` lies on the side of the target on which the
/// search goes on: above the target (and the step is still <= 1e5) when doubling, below it (and the step
/// still >= 1e-10) when halving.  Its negation is the bracket condition: the acceptance is on the OTHER side
/// of the target (or equal to it), or the 1e5 / 1e-10 guard fired.
pub open spec fn on_dir_side(up: bool, acc: real, target: real, step: real) -> bool {
    if up { acc > target && step <= 100000real } else { acc < target && step >= 0.0000000001real }
}

/// trial j of the recorded history was on the `dir` side (named so that the quantifier has a stable trigger)
pub open spec fn trial_on_side(accs: Seq<real>, j: int, up: bool, target: real, init: real) -> bool {
    on_dir_side(up, accs[j], target, trial_step(init, up, j as nat))
}

/// the acceptance statistic the search reads after ONE leapfrog from `start` to `out` is the one-step
/// acceptance a(dE) of C07.5, dE measured against the energy of the start state
pub open spec fn one_step_acc(start: StateView, out: StateView) -> real { acc_asym(out.energy - start.energy) }

/// the trial history stays on the dir side when a trial that was on the dir side is appended
// [C07.6]
pub proof fn lemma_trials_push(accs: Seq<real>, a: real, up: bool, target: real, init: real)
    requires
        forall|j: int| 0 <= j < accs.len() ==> #[trigger] trial_on_side(accs, j, up, target, init),
        on_dir_side(up, a, target, trial_step(init, up, accs.len())),
    ensures
        forall|j: int| 0 <= j < accs.push(a).len() ==> #[trigger] trial_on_side(accs.push(a), j, up, target, init),
{
    let a2 = accs.push(a);
    assert forall|j: int| 0 <= j < a2.len() implies #[trigger] trial_on_side(a2, j, up, target, init) by {
        if j < accs.len() {
            assert(trial_on_side(accs, j, up, target, init));
            assert(a2[j] == accs[j]);
        } else {
            assert(a2[j] == a);
        }
    }
}

/// a freshly seeded adaptation keeps the strategy well formed
pub proof fn lemma_fresh_wf(s0: Strategy, s1: Strategy, step: real)
    requires strat_wf(s0), !(s0.options.adapt_options.method is Fixed), s1.options == s0.options,
             fresh_adapt(s0.options, s1.adaptation, step),
             (s0.adaptation matches Some(Either::Left(_))) == (s1.adaptation matches Some(Either::Left(_))),
    ensures strat_wf(s1)
{
}
