// Prelude of unit `stepsize_init`: the shared dynamics façade (Math with its ghost evaluation history,
// Point, State, Rng, Collector, Hamiltonian incl. step_size_mut / init_state) plus a façade of the
// collector the search uses.  Every contract here is an ASSUMPTION of this unit (DESIGN §6).
//@include ../_shared/dyn_facade.rs

pub enum Either<L, R> { Left(L), Right(R) }

// ---- AcceptanceRateCollector: the real fields of src/stepsize/dual_avg.rs (RunningMean itself is extracted)
// plus the ghost bookkeeping the shared Collector façade asks of every collector.  The struct, `new` and the
// Collector impl are EXTRACTED and PROVED in unit `stepsize` against exactly the contract text used here
// (AcceptanceRateCollector::new: contracts.vspec of units adapt / stepsize; register_leapfrog / register_init:
// arc_leapfrog_pre / arc_leapfrog_post / arc_init_post of _shared/stepsize_spec.rs).
pub struct CollGhost { pub leapfrogs: nat, pub traj: Map<int, StateView>, pub draws: Seq<StateView>, pub divs: nat }
pub struct AcceptanceRateCollector {
    pub initial_energy: F,
    pub mean: RunningMean,
    pub mean_sym: RunningMean,
    pub max_energy_error: F,
    pub ghost_log: Ghost<CollGhost>,
}
impl AcceptanceRateCollector {
    #[verifier::external_body]
    pub fn new() -> (r: AcceptanceRateCollector)
        ensures
            r.mean.count == 0 && r.mean_sym.count == 0 && r.mean.sum.r() == 0real && r.mean_sym.sum.r() == 0real,
            r.max_energy_error.r() == 0real,
    { unimplemented!() }
}
impl<M: Math, P: Point<M>> Collector<M, P> for AcceptanceRateCollector {
    open spec fn leapfrogs(&self) -> nat { self.ghost_log@.leapfrogs }
    open spec fn traj(&self) -> Map<int, StateView> { self.ghost_log@.traj }
    open spec fn draws(&self) -> Seq<StateView> { self.ghost_log@.draws }
    open spec fn divs(&self) -> nat { self.ghost_log@.divs }
    // same text as impl_extra.rs of unit `stepsize` (the precondition of the real method becomes a guard here,
    // because the façade's `leapfrog` cannot require anything of the collector)
    open spec fn lf_post(&self, post: &Self, end: StateView, diverged: bool) -> bool {
        arc_leapfrog_pre(*self) ==> arc_leapfrog_post(*self, *post, end.energy, diverged)
    }
    open spec fn init_post(&self, post: &Self, state: StateView) -> bool { arc_init_post(*post, state.energy) }
    #[verifier::external_body]
    fn register_draw(&mut self, math: &mut M, state: &State<M, P>, info: &SampleInfo) { unimplemented!() }
    #[verifier::external_body]
    fn register_init(&mut self, math: &mut M, state: &State<M, P>, options: &NutsOptions) { unimplemented!() }
    #[verifier::external_body]
    fn register_leapfrog(&mut self, math: &mut M, start: &State<M, P>, end: &State<M, P>, divergence_info: Option<&DivergenceInfo>) { unimplemented!() }
}
