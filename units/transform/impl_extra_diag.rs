    // ghost items spliced into `impl Transformation<M> for DiagMassMatrix<M>`: the spec functions of the
    // trait, defined from the PROPERTY (C02.5) in lemmas.rs
    open spec fn view(&self) -> TransView { dm_view::<M>(*self) }
    open spec fn fwd(&self, x: Seq<real>) -> Seq<real> { diag_fwd(dv(*self), x) }
    open spec fn inv(&self, z: Seq<real>) -> Seq<real> { diag_inv(dv(*self), z) }
    open spec fn pull(&self, x: Seq<real>, gx: Seq<real>) -> Seq<real> { diag_pull(dv(*self), gx) }
    open spec fn logdet_at(&self, x: Seq<real>) -> real { dv(*self).logdet }
