    // ghost items spliced into `impl Transformation<M> for LowRankMassMatrix<M>`: the spec functions of the
    // trait, defined from the PROPERTY (C02.6) in lemmas.rs
    open spec fn view(&self) -> TransView { lr_view::<M>(*self) }
    open spec fn fwd(&self, x: Seq<real>) -> Seq<real> { lr_fwd(lv(*self), x) }
    open spec fn inv(&self, z: Seq<real>) -> Seq<real> { lr_inv(lv(*self), z) }
    open spec fn pull(&self, x: Seq<real>, gx: Seq<real>) -> Seq<real> { lr_pull(lv(*self), gx) }
    open spec fn logdet_at(&self, x: Seq<real>) -> real { lv(*self).logdet }
