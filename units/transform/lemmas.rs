// Specification vocabulary and lemmas of unit `transform` (model R), written from the statement of C02
// ("the transformation is a bijection whose inverse, gradient pull-back and log-determinant are mutually
// consistent; one step in the whitened space equals the x-space leapfrog for M^-1 = F F'").
// The per-element kernel formulas (upd_std_d, ... , sum_ln, vmul) are those of unit diagadapt:
//@include ../diagadapt/math_spec.rs

// =====================================================================================
// [C02.5] the diagonal transformation
// =====================================================================================
/// numeric content of a DiagMassMatrix
pub struct DV { pub mean: Seq<real>, pub std: Seq<real>, pub inv: Seq<real>, pub logdet: real }
pub open spec fn dv<M: Math>(t: DiagMassMatrix<M>) -> DV {
    DV { mean: M::vv(&t.mean), std: M::vv(&t.stds), inv: M::vv(&t.inv_stds), logdet: t.logdet.r() }
}
/// params = stds ++ inv_stds ++ mean ++ [logdet]   (same packing as unit diagadapt)
pub open spec fn dm_view<M: Math>(m: DiagMassMatrix<M>) -> TransView {
    TransView { id: m.id as int, params: M::vv(&m.stds) + M::vv(&m.inv_stds) + M::vv(&m.mean) + seq![m.logdet.r()] }
}

/// from the property:  z = (x - mu) (.) inv_std,   x = z (.) std + mu,   g_z = g_x (.) std,   logdet constant
pub open spec fn diag_fwd(d: DV, x: Seq<real>) -> Seq<real> { Seq::new(x.len(), |i: int| (x[i] - d.mean[i]) * d.inv[i]) }
pub open spec fn diag_inv(d: DV, z: Seq<real>) -> Seq<real> { Seq::new(z.len(), |i: int| z[i] * d.std[i] + d.mean[i]) }
pub open spec fn diag_pull(d: DV, g: Seq<real>) -> Seq<real> { Seq::new(g.len(), |i: int| g[i] * d.std[i]) }

/// representation invariant, one coordinate: std > 0 and std * inv_std == 1
pub open spec fn coord_ok(std: real, inv: real) -> bool { std > 0real && std * inv == 1real }
pub open spec fn dv_coord(d: DV, i: int) -> bool { coord_ok(d.std[i], d.inv[i]) }
pub open spec fn dv_shape(d: DV, n: nat) -> bool { d.mean.len() == n && d.std.len() == n && d.inv.len() == n }
/// representation invariant wf(T): all vectors have one length, every coordinate is ok, logdet = sum_i ln inv_std_i
pub open spec fn dv_wf(d: DV) -> bool {
    &&& dv_shape(d, d.std.len())
    &&& forall|i: int| 0 <= i < d.std.len() ==> #[trigger] dv_coord(d, i)
    &&& d.logdet == sum_ln(d.inv)
}
pub open spec fn dm_wf<M: Math>(t: DiagMassMatrix<M>) -> bool { dv_wf(dv(t)) }
pub open spec fn dm_shape<M: Math>(t: DiagMassMatrix<M>, n: nat) -> bool { dv_shape(dv(t), n) }

// ---- the invariant is re-established by every update kernel (rests on the kernel contracts of prelude.rs:
//      std = sqrt(val), inv_std = sqrt(1/val) with val > 0 -- cpu_math.rs:633-669, 671-708, 710-738)
/// val > 0  ==>  sqrt(val) > 0  and  sqrt(val) * sqrt(1/val) == 1      (from ax_sqrt only)
// [C02.5]
pub proof fn lemma_sqrt_pair(val: real)
    requires val > 0real
    ensures coord_ok(sqrt_r(val), sqrt_r(1real / val))
{
    let s = sqrt_r(val); let w = 1real / val; let t = sqrt_r(w);
    lemma_div_sign(1real, val);
    ax_sqrt(val); ax_sqrt(w);
    lemma_div_cancel(1real, val);
    assert(val * w == 1real) by(nonlinear_arith) requires w * val == 1real;
    assert((s * t) * (s * t) == (s * s) * (t * t)) by(nonlinear_arith);
    assert((s * t) * (s * t) == 1real);
    lemma_mul_nonneg(s, t);
    let p = s * t;
    assert(p == 1real) by(nonlinear_arith) requires p * p == 1real, p >= 0real;
    assert(s != 0real) by(nonlinear_arith) requires s * s == val, val > 0real;
}
pub proof fn lemma_clamp_pos(x: real, lo: real, hi: real)
    requires 0real < lo, lo <= hi
    ensures clamp_r(x, lo, hi) >= lo, clamp_r(x, lo, hi) <= hi, clamp_r(x, lo, hi) > 0real
{
}
/// cpu_math.rs:633-669 (array_update_var_inv_std_draw), one coordinate
// [C02.5]
pub proof fn lemma_d_coord(os: real, oi: real, dvar: real, scale: real, fill: Option<real>, lo: real, hi: real)
    requires 0real < lo, lo <= hi, match fill { Some(f) => f > 0real, None => coord_ok(os, oi) }
    ensures coord_ok(d_std(os, dvar, scale, fill, lo, hi), d_inv(oi, dvar, scale, fill, lo, hi))
{
    if dvar * scale != 0real {
        lemma_clamp_pos(dvar * scale, lo, hi);
        lemma_sqrt_pair(clamp_r(dvar * scale, lo, hi));
    } else {
        match fill { Some(f) => { lemma_sqrt_pair(f); }, None => {} }
    }
}
/// cpu_math.rs:671-708 (array_update_var_inv_std_draw_grad), one coordinate
// [C02.5]
pub proof fn lemma_dg_coord(os: real, oi: real, dvar: real, gvar: real, fill: Option<real>, lo: real, hi: real)
    requires 0real < lo, lo <= hi, match fill { Some(f) => f > 0real, None => coord_ok(os, oi) }
    ensures coord_ok(dg_std(os, dvar, gvar, fill, lo, hi), dg_inv(oi, dvar, gvar, fill, lo, hi))
{
    if dg_valid(dvar, gvar) {
        lemma_clamp_pos(sqrt_r(dvar / gvar), lo, hi);
        lemma_sqrt_pair(dg_val(dvar, gvar, lo, hi));
    } else {
        match fill { Some(f) => { lemma_sqrt_pair(f); }, None => {} }
    }
}
/// cpu_math.rs:710-738 (array_update_var_inv_std_grad), one coordinate: with a positive lower clamp the
/// value 1/clamp(|g|) is always positive (the `fill` branch is dead in model R)
// [C02.5]
pub proof fn lemma_g_coord(g: real, fill: real, lo: real, hi: real)
    requires 0real < lo, lo <= hi
    ensures coord_ok(sqrt_r(g_val(g, fill, lo, hi)), sqrt_r(1real / g_val(g, fill, lo, hi)))
{
    let c = clamp_r(abs_r(g), lo, hi);
    lemma_clamp_pos(abs_r(g), lo, hi);
    lemma_div_sign(1real, c);
    lemma_sqrt_pair(g_val(g, fill, lo, hi));
}

// ---- consequences of wf
pub proof fn lemma_inv_pos(s: real, si: real)
    requires coord_ok(s, si)
    ensures si > 0real
{
    assert(si > 0real) by(nonlinear_arith) requires s > 0real, s * si == 1real;
}

/// [C02.5] round trip 1:  inv(fwd(x)) == x
// [C02.5]
pub proof fn lemma_diag_roundtrip_x(d: DV, x: Seq<real>)
    requires dv_wf(d), x.len() == d.std.len()
    ensures diag_inv(d, diag_fwd(d, x)) == x
{
    let y = diag_inv(d, diag_fwd(d, x));
    assert forall|i: int| 0 <= i < x.len() implies y[i] == x[i] by {
        assert(dv_coord(d, i));
        let a = x[i] - d.mean[i]; let s = d.std[i]; let si = d.inv[i];
        assert((a * si) * s == a) by(nonlinear_arith) requires s * si == 1real;
    }
    assert(y =~= x);
}
/// [C02.5] round trip 2:  fwd(inv(z)) == z
// [C02.5]
pub proof fn lemma_diag_roundtrip_z(d: DV, z: Seq<real>)
    requires dv_wf(d), z.len() == d.std.len()
    ensures diag_fwd(d, diag_inv(d, z)) == z
{
    let y = diag_fwd(d, diag_inv(d, z));
    assert forall|i: int| 0 <= i < z.len() implies y[i] == z[i] by {
        assert(dv_coord(d, i));
        let s = d.std[i]; let si = d.inv[i]; let m = d.mean[i]; let a = z[i];
        assert(((a * s + m) - m) * si == a) by(nonlinear_arith) requires s * si == 1real;
    }
    assert(y =~= z);
}

// ---- logdet_at is ln |det dz/dx|
/// the forward map is affine and acts coordinate-wise: moving x by h along axis j moves z_i by h*inv_std_i
/// if i == j and not at all otherwise, i.e. the Jacobian dz/dx is exactly diag(inv_std)
// [C02.5]
pub proof fn lemma_diag_jacobian(d: DV, x: Seq<real>, j: int, h: real, i: int)
    requires 0 <= i < x.len(), 0 <= j < x.len()
    ensures diag_fwd(d, x.update(j, x[j] + h))[i] - diag_fwd(d, x)[i] == (if i == j { h * d.inv[i] } else { 0real })
{
    let x2 = x.update(j, x[j] + h);
    if i == j {
        assert(((x[i] + h) - d.mean[i]) * d.inv[i] - (x[i] - d.mean[i]) * d.inv[i] == h * d.inv[i]) by(nonlinear_arith);
    }
}
pub open spec fn prod_s(s: Seq<real>) -> real
    decreases s.len()
{
    if s.len() == 0 { 1real } else { prod_s(s.drop_last()) * s.last() }
}
/// ln(a*b) = ln a + ln b for a, b > 0 -- DERIVED from ax_exp_ln, ax_exp_add, ax_ln_exp (no new axiom)
pub proof fn lemma_ln_mul(a: real, b: real)
    requires a > 0real, b > 0real
    ensures ln_r(a * b) == ln_r(a) + ln_r(b)
{
    ax_exp_ln(a); ax_exp_ln(b);
    ax_exp_add(ln_r(a), ln_r(b));
    ax_ln_exp(ln_r(a) + ln_r(b));
}
pub proof fn lemma_ln_one()
    ensures ln_r(1real) == 0real
{
    broadcast use ax_exp_zero;
    ax_ln_exp(0real);
}
pub open spec fn all_pos(s: Seq<real>) -> bool { forall|i: int| 0 <= i < s.len() ==> #[trigger] s[i] > 0real }
pub proof fn lemma_sum_ln_prod(s: Seq<real>)
    requires all_pos(s)
    ensures prod_s(s) > 0real, ln_r(prod_s(s)) == sum_ln(s)
    decreases s.len()
{
    if s.len() == 0 {
        lemma_ln_one();
    } else {
        let p = s.drop_last();
        assert(all_pos(p)) by { assert forall|i: int| 0 <= i < p.len() implies #[trigger] p[i] > 0real by { assert(p[i] == s[i]); } }
        lemma_sum_ln_prod(p);
        assert(s.last() == s[s.len() - 1]);
        lemma_mul_sign(prod_s(p), s.last());
        lemma_ln_mul(prod_s(p), s.last());
    }
}
/// [C02.5] under wf the stored logdet is ln |det dz/dx|: the Jacobian is diag(inv_std) (lemma_diag_jacobian),
/// its determinant is the product of the diagonal (definition of det for a diagonal matrix), every factor is
/// positive, and ln of the product is the sum of the logarithms
// [C02.5]
pub proof fn lemma_diag_logdet(d: DV)
    requires dv_wf(d)
    ensures all_pos(d.inv), prod_s(d.inv) > 0real, d.logdet == ln_r(abs_r(prod_s(d.inv)))
{
    assert forall|i: int| 0 <= i < d.inv.len() implies #[trigger] d.inv[i] > 0real by {
        assert(dv_coord(d, i));
        lemma_inv_pos(d.std[i], d.inv[i]);
    }
    lemma_sum_ln_prod(d.inv);
}

// ---- the central lemma: one whitened Euclidean leapfrog step IS the x-space leapfrog for M^-1 = diag(std^2)
/// one coordinate, over the reals. x-space momentum p = v/std. `gx`/`gx1` are the x-space gradients at x / x';
/// the whitened gradients are their pull-backs g_z = g_x * std (that is what makes it work).
// [C02.5]
pub proof fn lemma_whitened_step_coord(x: real, v: real, gx: real, gx1: real, m: real, s: real, si: real, eps: real)
    requires coord_ok(s, si)
    ensures ({
        // whitened step (what the integrator does, C02.1)
        let z = (x - m) * si; let gz = gx * s;
        let vh = v + (eps / 2real) * gz;
        let z1 = z + eps * vh;
        let x1 = z1 * s + m;
        let gz1 = gx1 * s;
        let v1 = vh + (eps / 2real) * gz1;
        // x-space leapfrog with inverse mass s^2
        let p = v / s;
        let ph = p + (eps / 2real) * gx;
        &&& vh / s == ph
        &&& x1 == x + eps * ((s * s) * ph)
        &&& v1 / s == ph + (eps / 2real) * gx1
    })
{
    let z = (x - m) * si; let gz = gx * s;
    let e2 = eps / 2real;
    let vh = v + e2 * gz;
    let z1 = z + eps * vh;
    let x1 = z1 * s + m;
    let gz1 = gx1 * s;
    let v1 = vh + e2 * gz1;
    let p = v / s;
    let ph = p + e2 * gx;
    lemma_div_cancel(v, s);
    assert(p * s == v);
    // vh = s * ph
    assert(vh == ph * s) by(nonlinear_arith) requires vh == v + e2 * (gx * s), ph == p + e2 * gx, p * s == v;
    lemma_div_cancel(ph, s);
    assert(vh / s == ph);
    assert(z * s == x - m) by(nonlinear_arith) requires z == (x - m) * si, s * si == 1real;
    assert(x1 == x + eps * ((s * s) * ph)) by(nonlinear_arith)
        requires x1 == (z + eps * vh) * s + m, z * s == x - m, vh == ph * s;
    let ph1 = ph + e2 * gx1;
    assert(v1 == ph1 * s) by(nonlinear_arith) requires v1 == vh + e2 * (gx1 * s), vh == ph * s, ph1 == ph + e2 * gx1;
    lemma_div_cancel(ph1, s);
}
/// vector form, in the vocabulary of the integrator contract (lf_step, Euclidean branch, unit leapfrog):
/// q = fwd(x), gq = pull(g); vh = v + (eps/2) gq; q1 = q + eps vh; x1 = inv(q1); gq1 = pull(g1); v1 = vh + (eps/2) gq1.
/// Then in every coordinate i, with p = v/std:  ph = p + (eps/2) g,  x1 = x + eps std^2 ph,  p1 = ph + (eps/2) g1.
// [C02.5]
pub proof fn lemma_whitened_leapfrog_is_xspace(d: DV, x: Seq<real>, v: Seq<real>, g: Seq<real>, g1: Seq<real>, eps: real, i: int)
    requires dv_wf(d), x.len() == d.std.len(), v.len() == x.len(), g.len() == x.len(), g1.len() == x.len(), 0 <= i < x.len()
    ensures ({
        let q = diag_fwd(d, x); let gq = diag_pull(d, g);
        let vh = axpy_s(gq, v, eps / 2real);
        let q1 = axpy_s(vh, q, eps);
        let x1 = diag_inv(d, q1);
        let gq1 = diag_pull(d, g1);
        let v1 = axpy_s(gq1, vh, eps / 2real);
        let s = d.std[i];
        let ph = v[i] / s + (eps / 2real) * g[i];
        &&& vh[i] / s == ph
        &&& x1[i] == x[i] + eps * ((s * s) * ph)
        &&& v1[i] / s == ph + (eps / 2real) * g1[i]
    })
{
    assert(dv_coord(d, i));
    lemma_whitened_step_coord(x[i], v[i], g[i], g1[i], d.mean[i], d.std[i], d.inv[i], eps);
}

/// the pull-back is the transposed Jacobian of the INVERSE map: moving z by h along axis j moves x_i by
/// h*std_i if i == j and not otherwise (dx/dz = diag(std)), and pull(g)_i = g_i * std_i = ((dx/dz)^T g)_i
// [C02.5]
pub proof fn lemma_diag_pull_is_jacobian_t(d: DV, z: Seq<real>, g: Seq<real>, j: int, h: real, i: int)
    requires 0 <= i < z.len(), 0 <= j < z.len(), g.len() == z.len()
    ensures diag_inv(d, z.update(j, z[j] + h))[i] - diag_inv(d, z)[i] == (if i == j { h * d.std[i] } else { 0real }),
            diag_pull(d, g)[i] == g[i] * d.std[i]
{
    if i == j {
        assert((z[i] + h) * d.std[i] + d.mean[i] - (z[i] * d.std[i] + d.mean[i]) == h * d.std[i]) by(nonlinear_arith);
    }
}

// =====================================================================================
// [C02.6] the low-rank transformation: order / role facts against an UNINTERPRETED kernel
//   L(d) v := lowrank_s(U, d, v) = (I + U (diag d - I) U^T) v
// =====================================================================================
/// numeric content of InnerMatrix: U, lambda^{1/2}, lambda^{-1/2}, mu, logdet contribution
pub struct IV { pub vecs: Seq<Seq<real>>, pub vs: Seq<real>, pub vsi: Seq<real>, pub mu: Seq<real>, pub ldc: real }
pub struct LV { pub d: DV, pub inner: Option<IV>, pub logdet: real }
pub open spec fn iv<M: Math>(n: InnerMatrix<M>) -> IV {
    IV { vecs: M::eigvecs_v(&n.vecs), vs: M::eigvals_v(&n.vals_sqrt), vsi: M::eigvals_v(&n.vals_sqrt_inv), mu: M::vv(&n.mu), ldc: n.logdet_contribution.r() }
}
pub open spec fn lv<M: Math>(t: LowRankMassMatrix<M>) -> LV {
    LV { d: dv(t.diag), inner: match t.inner { Some(n) => Some(iv(n)), None => None }, logdet: t.logdet.r() }
}
pub uninterp spec fn flat_s(m: Seq<Seq<real>>) -> Seq<real>;
pub open spec fn lr_view<M: Math>(t: LowRankMassMatrix<M>) -> TransView {
    let l = lv(t);
    TransView { id: t.id as int,
                params: dm_view(t.diag).params + seq![l.logdet]
                        + (match l.inner { Some(n) => n.vs + n.vsi + n.mu + seq![n.ldc] + flat_s(n.vecs), None => Seq::<real>::empty() }) }
}

/// from the property (x = F y + mu with F = diag(std) L(lambda^{1/2})):
///   z = L(lambda^{-1/2}) ( (x - mean) (.) inv_std  -  mu )         centring, scaling, mu shift, THEN inverse spectral scaling
///   x = ( L(lambda^{1/2}) z + mu ) (.) std + mean                  the same steps undone in reverse order
///   g_z = L(lambda^{1/2}) ( g_x (.) std )                          (dx/dz)^T g_x, L symmetric
pub open spec fn lr_fwd(l: LV, x: Seq<real>) -> Seq<real> {
    let y = diag_fwd(l.d, x);
    match l.inner { None => y, Some(n) => lowrank_s(n.vecs, n.vsi, sub_s(y, n.mu)) }
}
pub open spec fn lr_inv(l: LV, z: Seq<real>) -> Seq<real> {
    match l.inner { None => diag_inv(l.d, z), Some(n) => diag_inv(l.d, add_s(lowrank_s(n.vecs, n.vs, z), n.mu)) }
}
pub open spec fn lr_pull(l: LV, g: Seq<real>) -> Seq<real> {
    match l.inner { None => diag_pull(l.d, g), Some(n) => lowrank_s(n.vecs, n.vs, diag_pull(l.d, g)) }
}
pub open spec fn iv_coord(n: IV, i: int) -> bool { coord_ok(n.vs[i], n.vsi[i]) }
/// representation invariant: diagonal part wf; the two scalings are positive reciprocals of each other;
/// logdet = diag.logdet + sum_i ln lambda_i^{-1/2}   ( = ln|det diag(inv_std)| + ln|det L(lambda^{-1/2})| )
pub open spec fn lr_wf(l: LV) -> bool {
    &&& dv_wf(l.d)
    &&& match l.inner {
        None => l.logdet == l.d.logdet,
        Some(n) => {
            &&& n.vs.len() == n.vsi.len()
            &&& forall|i: int| 0 <= i < n.vs.len() ==> #[trigger] iv_coord(n, i)
            &&& n.ldc == sum_ln(n.vsi)
            &&& l.logdet == n.ldc + l.d.logdet
        },
    }
}

pub proof fn lemma_ln_recip(a: real)
    requires a > 0real
    ensures 1real / a > 0real, ln_r(1real / a) == -ln_r(a)
{
    lemma_div_sign(1real, a);
    lemma_div_cancel(1real, a);
    assert(a * (1real / a) == 1real) by(nonlinear_arith) requires (1real / a) * a == 1real;
    lemma_ln_mul(a, 1real / a);
    lemma_ln_one();
}
pub proof fn lemma_ln_sqrt(a: real)
    requires a > 0real
    ensures sqrt_r(a) > 0real, 2real * ln_r(sqrt_r(a)) == ln_r(a)
{
    lemma_sqrt_pair(a);
    ax_sqrt(a);
    lemma_ln_mul(sqrt_r(a), sqrt_r(a));
}
/// what `InnerMatrix::new` stores (A-faer-inner) satisfies the invariant:  sum_i ln lambda_i^{-1/2} == -1/2 sum_i ln lambda_i
// [C02.6]
pub proof fn lemma_inner_ok(lam: Seq<real>)
    requires all_pos(lam)
    ensures
        forall|i: int| 0 <= i < lam.len() ==> #[trigger] coord_ok(sqrt_s(lam)[i], recip_s(sqrt_s(lam))[i]),
        sum_ln(recip_s(sqrt_s(lam))) == -(sum_ln(lam) / 2real),
    decreases lam.len()
{
    assert forall|i: int| 0 <= i < lam.len() implies coord_ok(sqrt_s(lam)[i], recip_s(sqrt_s(lam))[i]) by {
        assert(lam[i] > 0real);
        lemma_sqrt_pair(lam[i]);
        let s = sqrt_r(lam[i]);
        assert(sqrt_s(lam)[i] == s && recip_s(sqrt_s(lam))[i] == 1real / s);
        lemma_div_cancel(1real, s);
        assert(s * (1real / s) == 1real) by(nonlinear_arith) requires (1real / s) * s == 1real;
    }
    if lam.len() > 0 {
        let p = lam.drop_last();
        assert(all_pos(p)) by { assert forall|i: int| 0 <= i < p.len() implies #[trigger] p[i] > 0real by { assert(p[i] == lam[i]); } }
        lemma_inner_ok(p);
        assert(recip_s(sqrt_s(lam)).drop_last() =~= recip_s(sqrt_s(p)));
        let a = lam.last();
        assert(a == lam[lam.len() - 1]);
        assert(recip_s(sqrt_s(lam)).last() == 1real / sqrt_r(a));
        lemma_ln_sqrt(a);
        lemma_ln_recip(sqrt_r(a));
    }
}

/// [C02.6] round trip 1, GIVEN A-lowrank  L(lambda^{1/2}) L(lambda^{-1/2}) w = w  for the centred, scaled point w
// [C02.6]
pub proof fn lemma_lr_roundtrip_x(l: LV, x: Seq<real>)
    requires
        lr_wf(l), x.len() == l.d.std.len(),
        // A-lowrank (explicit assumption, true for orthonormal U; matrix algebra is not machine-checked)
        l.inner is Some ==> ({ let n = l.inner->Some_0; let w = sub_s(diag_fwd(l.d, x), n.mu);
                               lowrank_s(n.vecs, n.vs, lowrank_s(n.vecs, n.vsi, w)) == w }),
    ensures lr_inv(l, lr_fwd(l, x)) == x
{
    lemma_diag_roundtrip_x(l.d, x);
    match l.inner {
        None => {},
        Some(n) => {
            let y = diag_fwd(l.d, x);
            let w = sub_s(y, n.mu);
            assert(add_s(w, n.mu) =~= y);
        },
    }
}
/// [C02.6] round trip 2, GIVEN A-lowrank  L(lambda^{-1/2}) L(lambda^{1/2}) z = z  and that L preserves the length
// [C02.6]
pub proof fn lemma_lr_roundtrip_z(l: LV, z: Seq<real>)
    requires
        lr_wf(l), z.len() == l.d.std.len(),
        l.inner is Some ==> ({ let n = l.inner->Some_0;
                               lowrank_s(n.vecs, n.vsi, lowrank_s(n.vecs, n.vs, z)) == z && lowrank_s(n.vecs, n.vs, z).len() == z.len() }),
    ensures lr_fwd(l, lr_inv(l, z)) == z
{
    match l.inner {
        None => { lemma_diag_roundtrip_z(l.d, z); },
        Some(n) => {
            let w = lowrank_s(n.vecs, n.vs, z);
            let t = add_s(w, n.mu);
            lemma_diag_roundtrip_z(l.d, t);
            assert(sub_s(t, n.mu) =~= w);
        },
    }
}
/// det L(d) for orthonormal U -- uninterpreted; A-lowrank-det: it equals the product of d (matrix algebra, not checked)
pub uninterp spec fn lowrank_det(vecs: Seq<Seq<real>>, vals: Seq<real>) -> real;
/// [C02.6] sign/role of the log-determinant: dz/dx = L(lambda^{-1/2}) diag(inv_std), so
/// ln|det dz/dx| = sum ln inv_std_i + sum ln lambda_i^{-1/2}  ( = diag.logdet - 1/2 sum ln lambda, lemma_inner_ok ),
/// GIVEN det L(d) = prod d (A-lowrank-det) and multiplicativity of det (cited)
// [C02.6]
pub proof fn lemma_lr_logdet(l: LV)
    requires lr_wf(l), l.inner is Some,
             lowrank_det(l.inner->Some_0.vecs, l.inner->Some_0.vsi) == prod_s(l.inner->Some_0.vsi),
    ensures l.logdet == ln_r(abs_r(lowrank_det(l.inner->Some_0.vecs, l.inner->Some_0.vsi) * prod_s(l.d.inv)))
{
    let n = l.inner->Some_0;
    lemma_diag_logdet(l.d);
    assert forall|i: int| 0 <= i < n.vsi.len() implies #[trigger] n.vsi[i] > 0real by {
        assert(iv_coord(n, i));
        lemma_inv_pos(n.vs[i], n.vsi[i]);
    }
    lemma_sum_ln_prod(n.vsi);
    lemma_mul_sign(prod_s(n.vsi), prod_s(l.d.inv));
    lemma_ln_mul(prod_s(n.vsi), prod_s(l.d.inv));
}
