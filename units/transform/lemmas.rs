// Specification vocabulary and lemmas of unit `transform` (model R), written from the statement of C02
// ("the transformation is a bijection whose inverse, gradient pull-back and log-determinant are mutually
// consistent; one step in the whitened space equals the x-space leapfrog for M^-1 = F F'").
// The per-element kernel formulas (upd_std_d, ... , sum_ln, vmul) are those of unit diagadapt:
//@include ../diagadapt/math_spec.rs

// =====================================================================================
// [C02.5] the diagonal transformation
// =====================================================================================
/// numeric content of a DiagMassMatrix
pub struct DV { pub mean: Seq<real>, pub std: Seq<real>, pub inv: Seq<real>, pub logdet: real }
pub open spec fn dv<M: Math>(t: DiagMassMatrix<M>) -> DV {
    DV { mean: M::vv(&t.mean), std: M::vv(&t.stds), inv: M::vv(&t.inv_stds), logdet: t.logdet.r() }
}
/// params = stds ++ inv_stds ++ mean ++ [logdet]   (same packing as unit diagadapt)
pub open spec fn dm_view<M: Math>(m: DiagMassMatrix<M>) -> TransView {
    TransView { id: m.id as int, params: M::vv(&m.stds) + M::vv(&m.inv_stds) + M::vv(&m.mean) + seq![m.logdet.r()] }
}

/// from the property:  z = (x - mu) (.) inv_std,   x = z (.) std + mu,   g_z = g_x (.) std,   logdet constant
pub open spec fn diag_fwd(d: DV, x: Seq<real>) -> Seq<real> { Seq::new(x.len(), |i: int| (x[i] - d.mean[i]) * d.inv[i]) }
pub open spec fn diag_inv(d: DV, z: Seq<real>) -> Seq<real> { Seq::new(z.len(), |i: int| z[i] * d.std[i] + d.mean[i]) }
pub open spec fn diag_pull(d: DV, g: Seq<real>) -> Seq<real> { Seq::new(g.len(), |i: int| g[i] * d.std[i]) }

/// representation invariant, one coordinate: std > 0 and std * inv_std == 1
pub open spec fn coord_ok(std: real, inv: real) -> bool { std > 0real && std * inv == 1real }
pub open spec fn dv_coord(d: DV, i: int) -> bool { coord_ok(d.std[i], d.inv[i]) }
pub open spec fn dv_shape(d: DV, n: nat) -> bool { d.mean.len() == n && d.std.len() == n && d.inv.len() == n }
/// representation invariant wf(T): all vectors have one length, every coordinate is ok, logdet = sum_i ln inv_std_i
pub open spec fn dv_wf(d: DV) -> bool {
    &&& dv_shape(d, d.std.len())
    &&& forall|i: int| 0 <= i < d.std.len() ==> #[trigger] dv_coord(d, i)
    &&& d.logdet == sum_ln(d.inv)
}
pub open spec fn dm_wf<M: Math>(t: DiagMassMatrix<M>) -> bool { dv_wf(dv(t)) }
pub open spec fn dm_shape<M: Math>(t: DiagMassMatrix<M>, n: nat) -> bool { dv_shape(dv(t), n) }

// ---- the invariant is re-established by every update kernel (rests on the kernel contracts of prelude.rs:
//      std = sqrt(val), inv_std = sqrt(1/val) with val > 0 -- cpu_math.rs:633-669, 671-708, 710-738)
/// val > 0  ==>  sqrt(val) > 0  and  sqrt(val) * sqrt(1/val) == 1      (from ax_sqrt only)
// [C02.5]
pub proof fn lemma_sqrt_pair(val: real)
    requires val > 0real
    ensures coord_ok(sqrt_r(val), sqrt_r(1real / val))
{
    let s = sqrt_r(val); let w = 1real / val; let t = sqrt_r(w);
    lemma_div_sign(1real, val);
    ax_sqrt(val); ax_sqrt(w);
    lemma_div_cancel(1real, val);
    assert(val * w == 1real) by(nonlinear_arith) requires w * val == 1real;
    assert((s * t) * (s * t) == (s * s) * (t * t)) by(nonlinear_arith);
    assert((s * t) * (s * t) == 1real);
    lemma_mul_nonneg(s, t);
    let p = s * t;
    assert(p == 1real) by(nonlinear_arith) requires p * p == 1real, p >= 0real;
    assert(s != 0real) by(nonlinear_arith) requires s * s == val, val > 0real;
}
pub proof fn lemma_clamp_pos(x: real, lo: real, hi: real)
    requires 0real < lo, lo <= hi
    ensures clamp_r(x, lo, hi) >= lo, clamp_r(x, lo, hi) <= hi, clamp_r(x, lo, hi) > 0real
{
}
/// cpu_math.rs:633-669 (array_update_var_inv_std_draw), one coordinate
// [C02.5]
pub proof fn lemma_d_coord(os: real, oi: real, dvar: real, scale: real, fill: Option<real>, lo: real, hi: real)
    requires 0real < lo, lo <= hi, match fill { Some(f) => f > 0real, None => coord_ok(os, oi) }
    ensures coord_ok(d_std(os, dvar, scale, fill, lo, hi), d_inv(oi, dvar, scale, fill, lo, hi))
{
    if dvar * scale != 0real {
        lemma_clamp_pos(dvar * scale, lo, hi);
        lemma_sqrt_pair(clamp_r(dvar * scale, lo, hi));
    } else {
        match fill { Some(f) => { lemma_sqrt_pair(f); }, None => {} }
    }
}
/// cpu_math.rs:671-708 (array_update_var_inv_std_draw_grad), one coordinate
// [C02.5]
pub proof fn lemma_dg_coord(os: real, oi: real, dvar: real, gvar: real, fill: Option<real>, lo: real, hi: real)
    requires 0real < lo, lo <= hi, match fill { Some(f) => f > 0real, None => coord_ok(os, oi) }
    ensures coord_ok(dg_std(os, dvar, gvar, fill, lo, hi), dg_inv(oi, dvar, gvar, fill, lo, hi))
{
    if dg_valid(dvar, gvar) {
        lemma_clamp_pos(sqrt_r(dvar / gvar), lo, hi);
        lemma_sqrt_pair(dg_val(dvar, gvar, lo, hi));
    } else {
        match fill { Some(f) => { lemma_sqrt_pair(f); }, None => {} }
    }
}
/// cpu_math.rs:710-738 (array_update_var_inv_std_grad), one coordinate: with a positive lower clamp the
/// value 1/clamp(|g|) is always positive (the `fill` branch is dead in model R)
// [C02.5]
pub proof fn lemma_g_coord(g: real, fill: real, lo: real, hi: real)
    requires 0real < lo, lo <= hi
    ensures coord_ok(sqrt_r(g_val(g, fill, lo, hi)), sqrt_r(1real / g_val(g, fill, lo, hi)))
{
    let c = clamp_r(abs_r(g), lo, hi);
    lemma_clamp_pos(abs_r(g), lo, hi);
    lemma_div_sign(1real, c);
    lemma_sqrt_pair(g_val(g, fill, lo, hi));
}

// ---- consequences of wf
pub proof fn lemma_inv_pos(s: real, si: real)
    requires coord_ok(s, si)
    ensures si > 0real
{
    assert(si > 0real) by(nonlinear_arith) requires s > 0real, s * si == 1real;
}

/// [C02.5] round trip 1:  inv(fwd(x)) == x
// [C02.5]
pub proof fn lemma_diag_roundtrip_x(d: DV, x: Seq<real>)
    requires dv_wf(d), x.len() == d.std.len()
    ensures diag_inv(d, diag_fwd(d, x)) == x
{
    let y = diag_inv(d, diag_fwd(d, x));
    assert forall|i: int| 0 <= i < x.len() implies y[i] == x[i] by {
        assert(dv_coord(d, i));
        let a = x[i] - d.mean[i]; let s = d.std[i]; let si = d.inv[i];
        assert((a * si) * s == a) by(nonlinear_arith) requires s * si == 1real;
    }
    assert(y =~= x);
}
/// [C02.5] round trip 2:  fwd(inv(z)) == z
// [C02.5]
pub proof fn lemma_diag_roundtrip_z(d: DV, z: Seq<real>)
    requires dv_wf(d), z.len() == d.std.len()
    ensures diag_fwd(d, diag_inv(d, z)) == z
{
    let y = diag_fwd(d, diag_inv(d, z));
    assert forall|i: int| 0 <= i < z.len() implies y[i] == z[i] by {
        assert(dv_coord(d, i));
        let s = d.std[i]; let si = d.inv[i]; let m = d.mean[i]; let a = z[i];
        assert(((a * s + m) - m) * si == a) by(nonlinear_arith) requires s * si == 1real;
    }
    assert(y =~= z);
}

// ---- logdet_at is ln |det dz/dx|
/// the forward map is affine and acts coordinate-wise: moving x by h along axis j moves z_i by h*inv_std_i
/// if i == j and not at all otherwise, i.e. the Jacobian dz/dx is exactly diag(inv_std)
// [C02.5]
pub proof fn lemma_diag_jacobian(d: DV, x: Seq<real>, j: int, h: real, i: int)
    requires 0 <= i < x.len(), 0 <= j < x.len()
    ensures diag_fwd(d, x.update(j, x[j] + h))[i] - diag_fwd(d, x)[i] == (if i == j { h * d.inv[i] } else { 0real })
{
    let x2 = x.update(j, x[j] + h);
    if i == j {
        assert(((x[i] + h) - d.mean[i]) * d.inv[i] - (x[i] - d.mean[i]) * d.inv[i] == h * d.inv[i]) by(nonlinear_arith);
    }
}
pub open spec fn prod_s(s: Seq<real>) -> real
    decreases s.len()
{
    if s.len() == 0 { 1real } else { prod_s(s.drop_last()) * s.last() }
}
/// ln(a*b) = ln a + ln b for a, b > 0 -- DERIVED from ax_exp_ln, ax_exp_add, ax_ln_exp (no new axiom)
pub proof fn lemma_ln_mul(a: real, b: real)
    requires a > 0real, b > 0real
    ensures ln_r(a * b) == ln_r(a) + ln_r(b)
{
    ax_exp_ln(a); ax_exp_ln(b);
    ax_exp_add(ln_r(a), ln_r(b));
    ax_ln_exp(ln_r(a) + ln_r(b));
}
pub proof fn lemma_ln_one()
    ensures ln_r(1real) == 0real
{
    broadcast use ax_exp_zero;
    ax_ln_exp(0real);
}
pub open spec fn all_pos(s: Seq<real>) -> bool { forall|i: int| 0 <= i < s.len() ==> #[trigger] s[i] > 0real }
pub proof fn lemma_sum_ln_prod(s: Seq<real>)
    requires all_pos(s)
    ensures prod_s(s) > 0real, ln_r(prod_s(s)) == sum_ln(s)
    decreases s.len()
{
    if s.len() == 0 {
        lemma_ln_one();
    } else {
        let p = s.drop_last();
        assert(all_pos(p)) by { assert forall|i: int| 0 <= i < p.len() implies #[trigger] p[i] > 0real by { assert(p[i] == s[i]); } }
        lemma_sum_ln_prod(p);
        assert(s.last() == s[s.len() - 1]);
        lemma_mul_sign(prod_s(p), s.last());
        lemma_ln_mul(prod_s(p), s.last());
    }
}
/// [C02.5] under wf the stored logdet is ln |det dz/dx|: the Jacobian is diag(inv_std) (lemma_diag_jacobian),
/// its determinant is the product of the diagonal (definition of det for a diagonal matrix), every factor is
/// positive, and ln of the product is the sum of the logarithms
// [C02.5]
pub proof fn lemma_diag_logdet(d: DV)
    requires dv_wf(d)
    ensures all_pos(d.inv), prod_s(d.inv) > 0real, d.logdet == ln_r(abs_r(prod_s(d.inv)))
{
    assert forall|i: int| 0 <= i < d.inv.len() implies #[trigger] d.inv[i] > 0real by {
        assert(dv_coord(d, i));
        lemma_inv_pos(d.std[i], d.inv[i]);
    }
    lemma_sum_ln_prod(d.inv);
}

// ---- the central lemma: one whitened Euclidean leapfrog step IS the x-space leapfrog for M^-1 = diag(std^2)
/// one coordinate, over the reals. x-space momentum p = v/std. `gx`/`gx1` are the x-space gradients at x / x';
/// the whitened gradients are their pull-backs g_z = g_x * std (that is what makes it work).
// [C02.5]
pub proof fn lemma_whitened_step_coord(x: real, v: real, gx: real, gx1: real, m: real, s: real, si: real, eps: real)
    requires coord_ok(s, si)
    ensures ({
        // whitened step (what the integrator does, C02.1)
        let z = (x - m) * si; let gz = gx * s;
        let vh = v + (eps / 2real) * gz;
        let z1 = z + eps * vh;
        let x1 = z1 * s + m;
        let gz1 = gx1 * s;
        let v1 = vh + (eps / 2real) * gz1;
        // x-space leapfrog with inverse mass s^2
        let p = v / s;
        let ph = p + (eps / 2real) * gx;
        &&& vh / s == ph
        &&& x1 == x + eps * ((s * s) * ph)
        &&& v1 / s == ph + (eps / 2real) * gx1
    })
{
    let z = (x - m) * si; let gz = gx * s;
    let e2 = eps / 2real;
    let vh = v + e2 * gz;
    let z1 = z + eps * vh;
    let x1 = z1 * s + m;
    let gz1 = gx1 * s;
    let v1 = vh + e2 * gz1;
    let p = v / s;
    let ph = p + e2 * gx;
    lemma_div_cancel(v, s);
    assert(p * s == v);
    // vh = s * ph
    assert(vh == ph * s) by(nonlinear_arith) requires vh == v + e2 * (gx * s), ph == p + e2 * gx, p * s == v;
    lemma_div_cancel(ph, s);
    assert(vh / s == ph);
    assert(z * s == x - m) by(nonlinear_arith) requires z == (x - m) * si, s * si == 1real;
    assert(x1 == x + eps * ((s * s) * ph)) by(nonlinear_arith)
        requires x1 == (z + eps * vh) * s + m, z * s == x - m, vh == ph * s;
    let ph1 = ph + e2 * gx1;
    assert(v1 == ph1 * s) by(nonlinear_arith) requires v1 == vh + e2 * (gx1 * s), vh == ph * s, ph1 == ph + e2 * gx1;
    lemma_div_cancel(ph1, s);
}
/// vector form, in the vocabulary of the integrator contract (lf_step, Euclidean branch, unit leapfrog):
/// q = fwd(x), gq = pull(g); vh = v + (eps/2) gq; q1 = q + eps vh; x1 = inv(q1); gq1 = pull(g1); v1 = vh + (eps/2) gq1.
/// Then in every coordinate i, with p = v/std:  ph = p + (eps/2) g,  x1 = x + eps std^2 ph,  p1 = ph + (eps/2) g1.
// [C02.5]
pub proof fn lemma_whitened_leapfrog_is_xspace(d: DV, x: Seq<real>, v: Seq<real>, g: Seq<real>, g1: Seq<real>, eps: real, i: int)
    requires dv_wf(d), x.len() == d.std.len(), v.len() == x.len(), g.len() == x.len(), g1.len() == x.len(), 0 <= i < x.len()
    ensures ({
        let q = diag_fwd(d, x); let gq = diag_pull(d, g);
        let vh = axpy_s(gq, v, eps / 2real);
        let q1 = axpy_s(vh, q, eps);
        let x1 = diag_inv(d, q1);
        let gq1 = diag_pull(d, g1);
        let v1 = axpy_s(gq1, vh, eps / 2real);
        let s = d.std[i];
        let ph = v[i] / s + (eps / 2real) * g[i];
        &&& vh[i] / s == ph
        &&& x1[i] == x[i] + eps * ((s * s) * ph)
        &&& v1[i] / s == ph + (eps / 2real) * g1[i]
    })
{
    assert(dv_coord(d, i));
    lemma_whitened_step_coord(x[i], v[i], g[i], g1[i], d.mean[i], d.std[i], d.inv[i], eps);
}
