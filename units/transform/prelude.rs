// Prelude of unit `transform` (model R): the diagonal and the low-rank transformation (C02.5 / C02.6).
// * `Transformation<M>`: the contract text is copied VERBATIM from units/leapfrog/prelude.rs (what the
//   integrator assumes); here the extracted `impl Transformation<M> for DiagMassMatrix<M>` and
//   `impl Transformation<M> for LowRankMassMatrix<M>` are CHECKED against it.
// * `Math`: the methods shared with unit `leapfrog` carry the same text as there; the estimator kernels
//   carry the text of units/diagadapt/facade.rs (+ the `msame` frame). All of it is assumption A-math
//   (cpu_math.rs lines cited; bit-level agreement is the job of the Kani engine, C17).
use core::marker::PhantomData;
use core::fmt::Debug;

pub trait LogpError: Sized {
    spec fn recoverable(&self) -> bool;
    fn is_recoverable(&self) -> (r: bool) ensures r == self.recoverable();
}

/// the target density and its gradient as functions of the untransformed position (same text as unit leapfrog)
pub uninterp spec fn logp_of(model: int, x: Seq<real>) -> real;
pub uninterp spec fn grad_of(model: int, x: Seq<real>) -> Seq<real>;
/// A-lowrank: `(I + U (diag(vals) - I) U^T) rhs` (cpu_math.rs:332-425) -- UNINTERPRETED: no matrix algebra in this unit
pub uninterp spec fn lowrank_s(vecs: Seq<Seq<real>>, vals: Seq<real>, rhs: Seq<real>) -> Seq<real>;

// ---- VERBATIM copy of units/leapfrog/prelude.rs (MathView, no_eval, one_eval_err, one_eval, msame, mkeep) ----
/// ghost identity of a Math value: dimension and which density it holds (split off to avoid a trait cycle)
pub trait MathView: Sized {
    spec fn dim_spec(&self) -> nat;
    spec fn model(&self) -> int;
    /// ghost history of density evaluations (same text as dyn_facade.rs): total, and those ending in an unrecoverable error
    spec fn evals(&self) -> nat;
    spec fn fatal_evals(&self) -> nat;
}
/// a `&mut math` call that does not evaluate the density
pub open spec fn no_eval<M: MathView>(m0: &M, m1: &M) -> bool { m1.evals() == m0.evals() && m1.fatal_evals() == m0.fatal_evals() }
/// exactly one density evaluation; if it failed unrecoverably the call returned Err (quantifier-free form of
/// "exists fatal. one_eval(m0, m1, fatal) && (fatal ==> is_err)")
pub open spec fn one_eval_err<M: MathView>(m0: &M, m1: &M, is_err: bool) -> bool {
    m1.evals() == m0.evals() + 1 && (m1.fatal_evals() == m0.fatal_evals() || (m1.fatal_evals() == m0.fatal_evals() + 1 && is_err))
}
/// a `&mut math` call that evaluates the density exactly once; `fatal`: it ended in an unrecoverable error
pub open spec fn one_eval<M: MathView>(m0: &M, m1: &M, fatal: bool) -> bool {
    m1.evals() == m0.evals() + 1 && m1.fatal_evals() == m0.fatal_evals() + (if fatal { 1nat } else { 0nat })
}
/// a `&mut math` call neither changes the dimension nor the density held by `math`
pub open spec fn msame<M: MathView>(a: &M, b: &M) -> bool { a.dim_spec() == b.dim_spec() && a.model() == b.model() && no_eval(b, a) }
/// same dimension and density, but the call may have evaluated the density
pub open spec fn mkeep<M: MathView>(a: &M, b: &M) -> bool { a.dim_spec() == b.dim_spec() && a.model() == b.model() }

pub trait Math: MathView {
    type Vector;
    type LogpErr: LogpError;
    type EigVectors;
    type EigValues;
    spec fn vv(v: &Self::Vector) -> Seq<real>;
    /// mathematical content of the eigenvector matrix (columns) / of a vector of eigenvalue-like scalings
    spec fn eigvecs_v(v: &Self::EigVectors) -> Seq<Seq<real>>;
    spec fn eigvals_v(v: &Self::EigValues) -> Seq<real>;

    // ---- same text as units/leapfrog/prelude.rs (new_array strengthened: cpu_math.rs:94-96 `Col::zeros(self.dim())`)
    fn new_array(&mut self) -> (r: Self::Vector)
        ensures msame(final(self), old(self)), Self::vv(&r).len() == old(self).dim_spec(), Self::vv(&r) == zeros(old(self).dim_spec());
    /// cpu_math.rs:256-258  `dest.clone_from(array)`
    fn copy_into(&mut self, array: &Self::Vector, dest: &mut Self::Vector)
        ensures msame(final(self), old(self)), Self::vv(final(dest)) == Self::vv(array);
    /// cpu_math.rs:260-268 / math/util.rs `axpy_out`: out[i] = a.mul_add(x[i], y[i]) = y[i] + a*x[i]
    fn axpy_out(&mut self, x: &Self::Vector, y: &Self::Vector, a: F, out: &mut Self::Vector)
        ensures msame(final(self), old(self)), Self::vv(final(out)) == axpy_s(Self::vv(x), Self::vv(y), a.r());
    /// cpu_math.rs:270-277 / math/util.rs `axpy`: y[i] = a.mul_add(x[i], y[i]) = y[i] + a*x[i]
    fn axpy(&mut self, x: &Self::Vector, y: &mut Self::Vector, a: F)
        ensures msame(final(self), old(self)), Self::vv(final(y)) == axpy_s(Self::vv(x), Self::vv(old(y)), a.r());
    /// the user's density: Ok(value) with the gradient written, or an error (recoverable or not)
    fn logp_array(&mut self, position: &Self::Vector, gradient: &mut Self::Vector) -> (r: Result<F, Self::LogpErr>)
        ensures mkeep(final(self), old(self)), one_eval(old(self), final(self), r is Err && !r->Err_0.recoverable()),
                r is Ok ==> r->Ok_0.r() == logp_of(old(self).model(), Self::vv(position))
                            && Self::vv(final(gradient)) == grad_of(old(self).model(), Self::vv(position));

    /// cpu_math.rs:245-250  `dest.as_slice_mut().copy_from_slice(source)` (panics unless the lengths agree: precondition)
    fn read_from_slice(&mut self, dest: &mut Self::Vector, source: &[F])
        requires source@.len() == Self::vv(old(dest)).len()
        ensures msame(final(self), old(self)), Self::vv(final(dest)) == reals_of(source@);

    // ---- element kernels: same text as units/diagadapt/facade.rs plus the `msame` frame
    /// cpu_math.rs:306-318 / math/util.rs `multiply`: out[i] = x[i] * y[i]
    fn array_mult(&mut self, array1: &Self::Vector, array2: &Self::Vector, dest: &mut Self::Vector)
        ensures msame(final(self), old(self)), Self::vv(final(dest)) == vmul(Self::vv(array1), Self::vv(array2));
    /// cpu_math.rs:320-326 / math/util.rs `multiply_inplace`: out[i] = out[i] * x[i]
    fn array_mult_inplace(&mut self, array1: &mut Self::Vector, array2: &Self::Vector)
        ensures msame(final(self), old(self)), Self::vv(final(array1)) == vmul(Self::vv(old(array1)), Self::vv(array2));
    /// cpu_math.rs:328-330  dest[i] = array[i].recip()  (stated only where array[i] != 0: 1/0 is not a real)
    fn array_recip(&mut self, array: &Self::Vector, dest: &mut Self::Vector)
        ensures msame(final(self), old(self)), Self::vv(final(dest)).len() == Self::vv(array).len(),
                forall|i: int| 0 <= i < Self::vv(array).len() && Self::vv(array)[i] != 0real
                    ==> #[trigger] Self::vv(final(dest))[i] == 1real / Self::vv(array)[i];
    /// cpu_math.rs:300-304  sum += val.ln()
    fn array_sum_ln(&mut self, array: &Self::Vector) -> (r: F)
        ensures msame(final(self), old(self)), r.r() == sum_ln(Self::vv(array));
    /// cpu_math.rs:633-669  v = draw_var*scale; invalid (v == 0; non-finite cannot occur in model R):
    /// fill or keep; else val = clamp(v); std = sqrt(val); inv_std = sqrt(1/val).
    fn array_update_var_inv_std_draw(&mut self, inv_std: &mut Self::Vector, std: &mut Self::Vector, draw_var: &Self::Vector,
                                     scale: F, fill_invalid: Option<F>, clamp: (F, F))
        requires clamp.0.r() <= clamp.1.r()
        ensures msame(final(self), old(self)),
                Self::vv(final(std)) == upd_std_d(Self::vv(old(std)), Self::vv(draw_var), scale.r(), optr(fill_invalid), clamp.0.r(), clamp.1.r()),
                Self::vv(final(inv_std)) == upd_inv_d(Self::vv(old(inv_std)), Self::vv(draw_var), scale.r(), optr(fill_invalid), clamp.0.r(), clamp.1.r());
    /// cpu_math.rs:671-708  val = sqrt(draw_var/grad_var); invalid: fill or keep; else val = clamp(val);
    /// std = sqrt(val); inv_std = sqrt(1/val)
    fn array_update_var_inv_std_draw_grad(&mut self, inv_std: &mut Self::Vector, std: &mut Self::Vector, draw_var: &Self::Vector,
                                          grad_var: &Self::Vector, fill_invalid: Option<F>, clamp: (F, F))
        requires clamp.0.r() <= clamp.1.r()
        ensures msame(final(self), old(self)),
                Self::vv(final(std)) == upd_std_dg(Self::vv(old(std)), Self::vv(draw_var), Self::vv(grad_var), optr(fill_invalid), clamp.0.r(), clamp.1.r()),
                Self::vv(final(inv_std)) == upd_inv_dg(Self::vv(old(inv_std)), Self::vv(draw_var), Self::vv(grad_var), optr(fill_invalid), clamp.0.r(), clamp.1.r());
    /// cpu_math.rs:710-738  val = 1/clamp(|g|); non-finite (clamp(|g|) == 0 in model R): fill;
    /// std = sqrt(val); inv_std = sqrt(1/val)
    fn array_update_var_inv_std_grad(&mut self, inv_std: &mut Self::Vector, std: &mut Self::Vector, gradient: &Self::Vector,
                                     fill_invalid: F, clamp: (F, F))
        requires clamp.0.r() <= clamp.1.r()
        ensures msame(final(self), old(self)),
                Self::vv(final(std)) == upd_std_g(Self::vv(old(std)), Self::vv(gradient), fill_invalid.r(), clamp.0.r(), clamp.1.r()),
                Self::vv(final(inv_std)) == upd_inv_g(Self::vv(old(inv_std)), Self::vv(gradient), fill_invalid.r(), clamp.0.r(), clamp.1.r());

    // ---- low-rank kernel (A-lowrank): cpu_math.rs:332-379 / 381-425, dest = rhs + U (diag(vals) - I) U^T rhs
    fn apply_lowrank_transform(&mut self, vecs: &Self::EigVectors, vals: &Self::EigValues, rhs: &Self::Vector, dest: &mut Self::Vector)
        ensures msame(final(self), old(self)), Self::vv(final(dest)) == lowrank_s(Self::eigvecs_v(vecs), Self::eigvals_v(vals), Self::vv(rhs));
    fn apply_lowrank_transform_inplace(&mut self, vecs: &Self::EigVectors, vals: &Self::EigValues, rhs_and_dest: &mut Self::Vector)
        ensures msame(final(self), old(self)), Self::vv(final(rhs_and_dest)) == lowrank_s(Self::eigvecs_v(vecs), Self::eigvals_v(vals), Self::vv(old(rhs_and_dest)));
}

// ---- VERBATIM copy of units/leapfrog/prelude.rs (TransView + trait Transformation) ----
// check:  diff <(sed -n '/^pub struct TransView/,/^    fn transformation_id/p' units/leapfrog/prelude.rs) <(sed -n '/^pub struct TransView/,/^    fn transformation_id/p' units/transform/prelude.rs)
/// ghost view of a transformation: version counter and the parameters it applies (as in unit adapt)
pub struct TransView { pub id: int, pub params: Seq<real> }
pub trait Transformation<M: Math>: Sized {
    spec fn view(&self) -> TransView;
    /// z = T(x), x = T^{-1}(z), pull-back of a gradient, log|det dz/dx| -- functions of the parameters only
    spec fn fwd(&self, x: Seq<real>) -> Seq<real>;
    spec fn inv(&self, z: Seq<real>) -> Seq<real>;
    spec fn pull(&self, x: Seq<real>, gx: Seq<real>) -> Seq<real>;
    spec fn logdet_at(&self, x: Seq<real>) -> real;

    fn init_from_untransformed_position(&self, math: &mut M, untransformed_position: &M::Vector, untransformed_gradient: &mut M::Vector,
        transformed_position: &mut M::Vector, transformed_gradient: &mut M::Vector) -> (r: Result<(F, F), M::LogpErr>)
        ensures mkeep(final(math), old(math)), one_eval(old(math), final(math), r is Err && !r->Err_0.recoverable()),
            r is Ok ==> {
                let x = M::vv(untransformed_position);
                &&& M::vv(final(untransformed_gradient)) == grad_of(old(math).model(), x)
                &&& M::vv(final(transformed_position)) == self.fwd(x)
                &&& M::vv(final(transformed_gradient)) == self.pull(x, grad_of(old(math).model(), x))
                &&& r->Ok_0.0.r() == logp_of(old(math).model(), x)
                &&& r->Ok_0.1.r() == self.logdet_at(x)
            };
    fn init_from_transformed_position(&self, math: &mut M, untransformed_position: &mut M::Vector, untransformed_gradient: &mut M::Vector,
        transformed_position: &M::Vector, transformed_gradient: &mut M::Vector) -> (r: Result<(F, F), M::LogpErr>)
        ensures mkeep(final(math), old(math)), one_eval(old(math), final(math), r is Err && !r->Err_0.recoverable()),
            r is Ok ==> {
                let x = self.inv(M::vv(transformed_position));
                &&& M::vv(final(untransformed_position)) == x
                &&& M::vv(final(untransformed_gradient)) == grad_of(old(math).model(), x)
                &&& M::vv(final(transformed_gradient)) == self.pull(x, grad_of(old(math).model(), x))
                &&& r->Ok_0.0.r() == logp_of(old(math).model(), x)
                &&& r->Ok_0.1.r() == self.logdet_at(x)
            };
    fn inv_transform_normalize(&self, math: &mut M, untransformed_position: &M::Vector, untransformed_gradient: &M::Vector,
        transformed_position: &mut M::Vector, transformed_gradient: &mut M::Vector) -> (r: Result<F, M::LogpErr>)
        ensures msame(final(math), old(math)),
            r is Ok ==> {
                let x = M::vv(untransformed_position);
                &&& M::vv(final(transformed_position)) == self.fwd(x)
                &&& M::vv(final(transformed_gradient)) == self.pull(x, M::vv(untransformed_gradient))
                &&& r->Ok_0.r() == self.logdet_at(x)
            };
    fn transformation_id(&self, math: &mut M) -> (r: i64) ensures msame(final(math), old(math)), r as int == self.view().id;
}
// ---- end of verbatim copy ----

// ---- only so that `//@include ../diagadapt/math_spec.rs` resolves: its last spec fn (`dgc_reg_post`,
// the collector contract of units diagadapt/lowrankadapt) mentions these types; nothing here uses them.
pub struct DivergenceInfo { pub code: u64 }
pub struct SampleInfo { pub divergence_info: Option<DivergenceInfo> }
pub trait Point<M: Math>: Sized { spec fn pos_v(&self) -> Seq<real>; spec fn grad_v(&self) -> Seq<real>; }
pub struct State<M: Math, P: Point<M>> { pub p: P, pub idx: i64, pub _m: PhantomData<M> }
pub struct DrawGradCollector<M: Math> { pub draw: M::Vector, pub grad: M::Vector, pub is_good: bool }

// ---- faer façade for `LowRankMassMatrix::update` (A-faer): dense columns / matrices as ghost contents.
// Model R: every entry is finite, so the two finiteness scans of low_rank.rs:13-23 return true.
pub struct Col<T> { pub g: Ghost<Seq<real>>, pub _t: PhantomData<T> }
pub struct Mat<T> { pub g: Ghost<Seq<Seq<real>>>, pub _t: PhantomData<T> }
pub struct ColRef<T> { pub _t: PhantomData<T> }
pub struct MatRef<T> { pub _t: PhantomData<T> }
impl Col<F> {
    pub fn as_ref(&self) -> (r: ColRef<F>) { ColRef { _t: PhantomData } }
    pub fn try_as_col_major(&self) -> (r: Option<&Col<F>>) ensures r == Some(self) { Some(self) }
    #[verifier::external_body]
    pub fn as_slice(&self) -> (r: &[F]) ensures reals_of(r@) == self.g@ { unimplemented!() }
}
impl Mat<F> {
    pub fn as_ref(&self) -> (r: MatRef<F>) { MatRef { _t: PhantomData } }
}
pub fn col_all_finite(mat: &ColRef<F>) -> (r: bool) ensures r { true }
pub fn mat_all_finite(mat: &MatRef<F>) -> (r: bool) ensures r { true }

pub open spec fn sqrt_s(s: Seq<real>) -> Seq<real> { Seq::new(s.len(), |i: int| sqrt_r(s[i])) }
pub open spec fn recip_s(s: Seq<real>) -> Seq<real> { Seq::new(s.len(), |i: int| 1real / s[i]) }
impl<M: Math> InnerMatrix<M> {
    /// A-faer-inner: contract of `InnerMatrix::new` (low_rank.rs:56-88), which cannot be extracted (iterator
    /// closures over faer columns): logdet_contribution = sum_i -0.5*ln(lambda_i) (line 58),
    /// vals_sqrt = sqrt(lambda) (lines 67-68), vals_sqrt_inv = 1/sqrt(lambda) (lines 71-72), vecs/mu copied.
    #[verifier::external_body]
    pub fn new(math: &mut M, vals: Col<F>, vecs: Mat<F>, mu: Col<F>) -> (r: Self)
        ensures msame(final(math), old(math)),
            M::eigvecs_v(&r.vecs) == vecs.g@,
            M::eigvals_v(&r.vals_sqrt) == sqrt_s(vals.g@),
            M::eigvals_v(&r.vals_sqrt_inv) == recip_s(sqrt_s(vals.g@)),
            r.logdet_contribution.r() == -(sum_ln(vals.g@) / 2real),
            M::vv(&r.mu) == mu.g@,
            r.num_eigenvalues as nat == vals.g@.len(),
    { unimplemented!() }
}
