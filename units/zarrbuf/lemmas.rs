// =====================================================================================
// Unit zarrbuf, property C15 (chunk arithmetic of the Zarr backends).
// Spec vocabulary written from the property statement / DESIGN §5 C15, then the history model.
// =====================================================================================

/// One stored element of a buffer, whatever its machine type (float values stay opaque).
pub enum Elem { F64(f64), F32(f32), Bool(bool), I64(i64), U64(u64), Str(String) }
/// The value recorded for one logical entry (one `push`): one element for a scalar item, the
/// whole vector for a vector item.
pub type Row = Seq<Elem>;

/// the machine element types a buffer can hold, embedded into `Elem`
pub trait ZElem: Sized { spec fn elem(self) -> Elem; }
impl ZElem for f64 { open spec fn elem(self) -> Elem { Elem::F64(self) } }
impl ZElem for f32 { open spec fn elem(self) -> Elem { Elem::F32(self) } }
impl ZElem for bool { open spec fn elem(self) -> Elem { Elem::Bool(self) } }
impl ZElem for i64 { open spec fn elem(self) -> Elem { Elem::I64(self) } }
impl ZElem for u64 { open spec fn elem(self) -> Elem { Elem::U64(self) } }
impl ZElem for String { open spec fn elem(self) -> Elem { Elem::Str(self) } }
/// element-wise embedding of a typed vector into `Seq<Elem>`
pub open spec fn wrap<T: ZElem>(s: Seq<T>) -> Seq<Elem> { Seq::new(s.len(), |i: int| s[i].elem()) }

// `wrap` commutes with the three ways the code builds vectors (with_capacity, push, extend); used by
// the exec contracts through `broadcast use group_wrap` so that no proof text refers to a local.
pub broadcast proof fn lemma_wrap_empty<T: ZElem>(s: Seq<T>)
    requires s.len() == 0,
    ensures #[trigger] wrap(s) == Seq::<Elem>::empty(),
{ assert(wrap(s) =~= Seq::<Elem>::empty()); }
pub broadcast proof fn lemma_wrap_push<T: ZElem>(s: Seq<T>, x: T)
    ensures #[trigger] wrap(s.push(x)) == wrap(s) + seq![x.elem()],
{ assert(wrap(s.push(x)) =~= wrap(s) + seq![x.elem()]); }
pub broadcast proof fn lemma_wrap_add<T: ZElem>(a: Seq<T>, b: Seq<T>)
    ensures #[trigger] wrap(a + b) == wrap(a) + wrap(b),
{ assert(wrap(a + b) =~= wrap(a) + wrap(b)); }
pub broadcast group group_wrap { lemma_wrap_empty, lemma_wrap_push, lemma_wrap_add }

/// element type of a buffer (the variant of `SampleBufferValue`), named by the `ItemType` it is created from
pub open spec fn kind(v: SampleBufferValue) -> ItemType {
    match v {
        SampleBufferValue::F64(_) => ItemType::F64,
        SampleBufferValue::F32(_) => ItemType::F32,
        SampleBufferValue::Bool(_) => ItemType::Bool,
        SampleBufferValue::I64(_) => ItemType::I64,
        SampleBufferValue::U64(_) => ItemType::U64,
        SampleBufferValue::String(_) => ItemType::String,
    }
}
/// the stored elements, in storage order.  `(kind, flat)` is the complete abstract value.
pub open spec fn flat(v: SampleBufferValue) -> Seq<Elem> {
    match v {
        SampleBufferValue::F64(x) => wrap(x@),
        SampleBufferValue::F32(x) => wrap(x@),
        SampleBufferValue::Bool(x) => wrap(x@),
        SampleBufferValue::I64(x) => wrap(x@),
        SampleBufferValue::U64(x) => wrap(x@),
        SampleBufferValue::String(x) => wrap(x@),
    }
}

/// the (buffer type, item) pairs `push` accepts; every other pair panics ("Mismatched item type")
pub open spec fn compat(k: ItemType, item: Value) -> bool {
    match (k, item) {
        (ItemType::F64, Value::ScalarF64(_)) | (ItemType::F64, Value::F64(_)) => true,
        (ItemType::F32, Value::ScalarF32(_)) | (ItemType::F32, Value::F32(_)) => true,
        (ItemType::U64, Value::ScalarU64(_)) | (ItemType::U64, Value::U64(_)) => true,
        (ItemType::Bool, Value::ScalarBool(_)) | (ItemType::Bool, Value::Bool(_)) => true,
        (ItemType::I64, Value::ScalarI64(_)) | (ItemType::I64, Value::I64(_)) => true,
        (ItemType::String, Value::ScalarString(_)) => true,
        _ => false,
    }
}
/// the row a pushed item stands for: ROW/ELEMENT RELATION -- a scalar item is a row of one
/// element, a vector item is a row of `v.len()` elements; the buffer stores rows back to back.
pub open spec fn item_row(item: Value) -> Row {
    match item {
        Value::ScalarF64(x) => seq![Elem::F64(x)],
        Value::ScalarF32(x) => seq![Elem::F32(x)],
        Value::ScalarU64(x) => seq![Elem::U64(x)],
        Value::ScalarBool(x) => seq![Elem::Bool(x)],
        Value::ScalarI64(x) => seq![Elem::I64(x)],
        Value::ScalarString(x) => seq![Elem::Str(x)],
        Value::F64(v) => wrap(v@),
        Value::F32(v) => wrap(v@),
        Value::U64(v) => wrap(v@),
        Value::Bool(v) => wrap(v@),
        Value::I64(v) => wrap(v@),
        Value::Strings(v) => wrap(v@),
        Value::DateTime64(_, v) => wrap(v@),
        Value::TimeDelta64(_, v) => wrap(v@),
    }
}

// ---------------------------------------------------------------------------------------
// abstract views of the two data types (every field is represented)
// ---------------------------------------------------------------------------------------
pub struct BufV { pub kind: ItemType, pub flat: Seq<Elem>, pub len: int, pub full_at: int, pub cur: int }
pub struct ChunkV { pub kind: ItemType, pub idx: int, pub len: int, pub full_at: int, pub flat: Seq<Elem> }

pub open spec fn bv(b: SampleBuffer) -> BufV {
    BufV { kind: kind(b.items), flat: flat(b.items), len: b.len as int, full_at: b.full_at as int, cur: b.current_chunk as int }
}
pub open spec fn cv(c: Chunk) -> ChunkV {
    ChunkV { kind: kind(c.values), idx: c.chunk_idx as int, len: c.len as int, full_at: c.full_at as int, flat: flat(c.values) }
}
pub open spec fn ocv(c: Option<Chunk>) -> Option<ChunkV> {
    match c { Some(c) => Some(cv(c)), None => None }
}

/// representation invariant, width-independent part: a buffer never rests full
pub open spec fn wf(b: BufV) -> bool { 0 < b.full_at && 0 <= b.len < b.full_at && 0 <= b.cur }
/// representation invariant for rows of `w` elements: rows(items) == len
pub open spec fn wf_w(b: BufV, w: int) -> bool { wf(b) && 0 <= w && b.flat.len() == b.len * w }
/// i-th row of a back-to-back row store
pub open spec fn row_at(flat: Seq<Elem>, i: int, w: int) -> Row { flat.subrange(i * w, (i + 1) * w) }

// ---------------------------------------------------------------------------------------
// the operations as the property states them (C15 / DESIGN §5 C15)
// ---------------------------------------------------------------------------------------
pub open spec fn empty_next(b: BufV, cur: int) -> BufV { BufV { flat: Seq::<Elem>::empty(), len: 0, cur: cur, ..b } }
pub open spec fn as_chunk(b: BufV) -> ChunkV { ChunkV { kind: b.kind, idx: b.cur, len: b.len, full_at: b.full_at, flat: b.flat } }

/// `finish_chunk`: everything buffered leaves as chunk `current_chunk`; the buffer is empty, on the next chunk
pub open spec fn finish_v(b: BufV) -> (ChunkV, BufV) { (as_chunk(b), empty_next(b, b.cur + 1)) }
/// `push`: either one more row, nothing emitted, or the chunk (idx = current_chunk, len = full_at,
/// values = old ++ item) is emitted, current_chunk + 1, buffer empty
pub open spec fn push_v(b: BufV, row: Row) -> (Option<ChunkV>, BufV) {
    if b.len + 1 == b.full_at {
        (Some(ChunkV { kind: b.kind, idx: b.cur, len: b.full_at, full_at: b.full_at, flat: b.flat + row }), empty_next(b, b.cur + 1))
    } else {
        (None, BufV { flat: b.flat + row, len: b.len + 1, ..b })
    }
}
/// `copy_as_chunk`: pure copy (current_chunk, len, items); nothing for an empty buffer
pub open spec fn copy_v(b: BufV) -> Option<ChunkV> { if b.len == 0 { None } else { Some(as_chunk(b)) } }
/// `reset`: returns the partial chunk (None when empty) and restarts at chunk 0
pub open spec fn reset_v(b: BufV) -> (Option<ChunkV>, BufV) {
    if b.len == 0 { (None, BufV { cur: 0, ..b }) } else { (Some(as_chunk(b)), empty_next(b, 0)) }
}
/// `total_pushed`
pub open spec fn total_v(b: BufV) -> int { b.cur * b.full_at + b.len }
pub open spec fn init_v(k: ItemType, full_at: int) -> BufV { BufV { kind: k, flat: Seq::<Elem>::empty(), len: 0, full_at: full_at, cur: 0 } }

pub open spec fn supported(t: ItemType) -> bool { !(t is DateTime64) && !(t is TimeDelta64) }

// =====================================================================================
// History model (pure spec) and the C15 lemmas
// =====================================================================================

/// every pushed row has `w` elements (scalar variables: w == 1; a vector variable: the product of
/// its extra dimensions).  The buffer does not check this; `store_zarr_chunk` does at write time.
pub open spec fn uniform(pushes: Seq<Row>, w: int) -> bool {
    forall|i: int| 0 <= i < pushes.len() ==> (#[trigger] pushes[i]).len() == w
}

pub struct RunV { pub emitted: Seq<ChunkV>, pub buf: BufV }

/// a fresh buffer (`new`) followed by `pushes`, collecting the chunks `push` returns
pub open spec fn run(k: ItemType, full_at: int, pushes: Seq<Row>) -> RunV
    decreases pushes.len()
{
    if pushes.len() == 0 {
        RunV { emitted: Seq::<ChunkV>::empty(), buf: init_v(k, full_at) }
    } else {
        let p = run(k, full_at, pushes.drop_last());
        let (c, b) = push_v(p.buf, pushes.last());
        RunV { emitted: match c { Some(c) => p.emitted.push(c), None => p.emitted }, buf: b }
    }
}

/// global row `r` of the array lies in the region chunk `c` addresses:
/// chunk k covers rows [k*full_at, k*full_at + len)
pub open spec fn covers(c: ChunkV, r: int) -> bool { c.idx * c.full_at <= r < c.idx * c.full_at + c.len }

/// A-zarrs (assumption, stated once): writing chunk `c` (store_chunk for a full chunk,
/// store_chunk_subset / store_array_subset for a partial one) writes exactly the rows it covers,
/// row i of the chunk to global row idx*full_at + i, and nothing else.
pub open spec fn store_chunk_v(m: IMap<int, Row>, c: ChunkV, w: int) -> IMap<int, Row> {
    IMap::new(
        |r: int| m.dom().contains(r) || covers(c, r),
        |r: int| if covers(c, r) { row_at(c.flat, r - c.idx * c.full_at, w) } else { m[r] },
    )
}
pub open spec fn store_opt(m: IMap<int, Row>, c: Option<ChunkV>, w: int) -> IMap<int, Row> {
    match c { Some(c) => store_chunk_v(m, c, w), None => m }
}
pub open spec fn store_all(cs: Seq<ChunkV>, w: int) -> IMap<int, Row>
    decreases cs.len()
{
    if cs.len() == 0 { IMap::<int, Row>::empty() } else { store_chunk_v(store_all(cs.drop_last(), w), cs.last(), w) }
}
/// what a fresh reader sees right after `pushes` followed by one flush (`copy_as_chunk` + write)
pub open spec fn store_after_flush(k: ItemType, full_at: int, pushes: Seq<Row>, w: int) -> IMap<int, Row> {
    let r = run(k, full_at, pushes);
    store_opt(store_all(r.emitted, w), copy_v(r.buf), w)
}

/// the buffer holds exactly the rows pushed since the last emitted chunk
pub open spec fn buf_holds(b: BufV, pushed: Seq<Row>, w: int) -> bool {
    &&& wf_w(b, w)
    &&& total_v(b) == pushed.len()
    &&& forall|i: int| 0 <= i < b.len ==> #[trigger] row_at(b.flat, i, w) == pushed[b.cur * b.full_at + i]
}
/// chunk `c` holds, for every row it covers, the value pushed for that row
pub open spec fn chunk_holds(c: ChunkV, pushed: Seq<Row>, w: int) -> bool {
    &&& 0 <= c.idx && 0 <= c.len && 0 < c.full_at && c.idx * c.full_at + c.len <= pushed.len()
    &&& forall|i: int| 0 <= i < c.len ==> #[trigger] row_at(c.flat, i, w) == pushed[c.idx * c.full_at + i]
}
/// every row present in the store is a pushed row and holds the value pushed for it
pub open spec fn store_ok(m: IMap<int, Row>, pushed: Seq<Row>) -> bool {
    forall|r: int| #[trigger] m.dom().contains(r) ==> 0 <= r < pushed.len() && m[r] == pushed[r]
}
/// the store holds exactly rows [0, n)
pub open spec fn store_exactly(m: IMap<int, Row>, n: int) -> bool {
    forall|r: int| #[trigger] m.dom().contains(r) <==> 0 <= r < n
}

pub proof fn lemma_row_at_app(flat: Seq<Elem>, row: Row, n: int, w: int, i: int)
    requires flat.len() == n * w, row.len() == w, 0 <= i <= n, 0 <= w,
    ensures
        i < n ==> row_at(flat + row, i, w) == row_at(flat, i, w),
        i == n ==> row_at(flat + row, i, w) == row,
{
    assert(0 <= i * w && (i + 1) * w == i * w + w) by(nonlinear_arith) requires 0 <= i, 0 <= w;
    if i < n {
        assert((i + 1) * w <= n * w) by(nonlinear_arith) requires i + 1 <= n, 0 <= w;
        assert(row_at(flat + row, i, w) =~= row_at(flat, i, w));
    } else {
        assert(row_at(flat + row, i, w) =~= row);
    }
}

// [C15] one push keeps "buffer + emitted chunk hold the pushed values" (the induction step)
pub proof fn lemma_push_holds(b: BufV, pushed: Seq<Row>, row: Row, w: int)
    requires buf_holds(b, pushed, w), row.len() == w,
    ensures ({
        let (c, b2) = push_v(b, row);
        let p2 = pushed.push(row);
        &&& buf_holds(b2, p2, w)
        &&& b2.kind == b.kind && b2.full_at == b.full_at
        &&& (c is None ==> b2.cur == b.cur)
        &&& (c is Some ==> chunk_holds(c->Some_0, p2, w) && c->Some_0.idx == b.cur && c->Some_0.len == b.full_at
                && c->Some_0.full_at == b.full_at && b2.cur == b.cur + 1)
    }),
{
    let (c, b2) = push_v(b, row);
    let p2 = pushed.push(row);
    let f2 = b.flat + row;
    assert((b.len + 1) * w == b.len * w + w) by(nonlinear_arith);
    assert((b.cur + 1) * b.full_at == b.cur * b.full_at + b.full_at) by(nonlinear_arith);
    assert(0 <= b.cur * b.full_at) by(nonlinear_arith) requires 0 <= b.cur, 0 < b.full_at;
    assert forall|i: int| 0 <= i < b.len + 1 implies #[trigger] row_at(f2, i, w) == p2[b.cur * b.full_at + i] by {
        lemma_row_at_app(b.flat, row, b.len, w, i);
        if i < b.len {
            assert(row_at(b.flat, i, w) == pushed[b.cur * b.full_at + i]);
        }
    }
    if b.len + 1 == b.full_at {
        assert(b2.flat.len() == 0 * w);
    }
}

// [C15] a flush chunk (copy_as_chunk) holds the pushed values of exactly the rows up to total_pushed
pub proof fn lemma_copy_holds(b: BufV, pushed: Seq<Row>, w: int)
    requires buf_holds(b, pushed, w),
    ensures
        copy_v(b) is None ==> b.cur * b.full_at == pushed.len(),
        copy_v(b) is Some ==> chunk_holds(copy_v(b)->Some_0, pushed, w)
            && copy_v(b)->Some_0.idx == b.cur
            && copy_v(b)->Some_0.idx * copy_v(b)->Some_0.full_at + copy_v(b)->Some_0.len == pushed.len(),
{
}

// [C15] writing a chunk that holds pushed values keeps the store correct, never removes a row and
// rewrites an already present row only with the value it already has
pub proof fn lemma_store_chunk_ok(m: IMap<int, Row>, c: ChunkV, pushed: Seq<Row>, w: int)
    requires store_ok(m, pushed), chunk_holds(c, pushed, w),
    ensures
        store_ok(store_chunk_v(m, c, w), pushed),
        forall|r: int| m.dom().contains(r) ==> #[trigger] store_chunk_v(m, c, w).dom().contains(r) && store_chunk_v(m, c, w)[r] == m[r],
        forall|r: int| covers(c, r) ==> #[trigger] store_chunk_v(m, c, w).dom().contains(r),
{
    let m2 = store_chunk_v(m, c, w);
    assert(0 <= c.idx * c.full_at) by(nonlinear_arith) requires 0 <= c.idx, 0 < c.full_at;
    assert forall|r: int| #[trigger] m2.dom().contains(r) implies 0 <= r < pushed.len() && m2[r] == pushed[r] by {
        if covers(c, r) {
            let i = r - c.idx * c.full_at;
            assert(row_at(c.flat, i, w) == pushed[c.idx * c.full_at + i]);
        } else {
            assert(m.dom().contains(r));
        }
    }
    assert forall|r: int| m.dom().contains(r) implies #[trigger] m2.dom().contains(r) && m2[r] == m[r] by {
        assert(m2.dom().contains(r));
    }
}

pub proof fn lemma_store_ok_mono(m: IMap<int, Row>, pushed: Seq<Row>, row: Row)
    requires store_ok(m, pushed),
    ensures store_ok(m, pushed.push(row)),
{
    assert forall|r: int| #[trigger] m.dom().contains(r) implies 0 <= r < pushed.push(row).len() && m[r] == pushed.push(row)[r] by {
        assert(m[r] == pushed[r]);
    }
}

pub proof fn lemma_chunk_holds_mono(c: ChunkV, pushed: Seq<Row>, row: Row, w: int)
    requires chunk_holds(c, pushed, w),
    ensures chunk_holds(c, pushed.push(row), w),
{
    assert(0 <= c.idx * c.full_at) by(nonlinear_arith) requires 0 <= c.idx, 0 < c.full_at;
    assert forall|i: int| 0 <= i < c.len implies #[trigger] row_at(c.flat, i, w) == pushed.push(row)[c.idx * c.full_at + i] by {
        assert(row_at(c.flat, i, w) == pushed[c.idx * c.full_at + i]);
    }
}

/// the emitted chunks of a run are the full chunks 0, 1, …, each holding the values pushed for its rows
pub open spec fn emitted_ok(cs: Seq<ChunkV>, full_at: int, pushed: Seq<Row>, w: int) -> bool {
    forall|j: int| 0 <= j < cs.len() ==> (#[trigger] cs[j]).idx == j && cs[j].len == full_at && cs[j].full_at == full_at
        && chunk_holds(cs[j], pushed, w)
}

// [C15] invariant of a run: after any sequence of pushes the emitted chunks are the full chunks
// 0..current_chunk, the buffer holds the rest, total_pushed counts the pushes
pub proof fn lemma_run(k: ItemType, full_at: int, pushes: Seq<Row>, w: int)
    requires 0 < full_at, 0 <= w, uniform(pushes, w),
    ensures ({
        let r = run(k, full_at, pushes);
        &&& buf_holds(r.buf, pushes, w)
        &&& r.buf.kind == k && r.buf.full_at == full_at
        &&& r.emitted.len() == r.buf.cur
        &&& emitted_ok(r.emitted, full_at, pushes, w)
        &&& total_v(r.buf) == pushes.len()
    }),
    decreases pushes.len(),
{
    if pushes.len() == 0 {
        let r = run(k, full_at, pushes);
        assert(r.buf == init_v(k, full_at));
        assert(r.buf.flat.len() == 0 * w) by(nonlinear_arith) requires r.buf.flat.len() == 0;
        assert(r.buf.cur * r.buf.full_at == 0) by(nonlinear_arith) requires r.buf.cur == 0;
        assert(wf_w(r.buf, w));
        assert(buf_holds(r.buf, pushes, w));
        assert(r.emitted.len() == 0);
        assert(emitted_ok(r.emitted, full_at, pushes, w));
    } else {
        let pre = pushes.drop_last();
        let last = pushes[pushes.len() - 1];
        assert(last.len() == w);
        assert(uniform(pre, w)) by {
            assert forall|i: int| 0 <= i < pre.len() implies (#[trigger] pre[i]).len() == w by { assert(pre[i] == pushes[i]); }
        }
        lemma_run(k, full_at, pre, w);
        let p = run(k, full_at, pre);
        lemma_push_holds(p.buf, pre, last, w);
        assert(pre.push(last) =~= pushes);
        let r = run(k, full_at, pushes);
        let (c, b) = push_v(p.buf, last);
        assert(r.buf == b);
        assert(buf_holds(r.buf, pushes, w));
        assert(r.emitted.len() == r.buf.cur);
        assert forall|j: int| 0 <= j < r.emitted.len() implies (#[trigger] r.emitted[j]).idx == j && r.emitted[j].len == full_at
            && r.emitted[j].full_at == full_at && chunk_holds(r.emitted[j], pushes, w) by {
            if j < p.emitted.len() {
                assert(r.emitted[j] == p.emitted[j]);
                lemma_chunk_holds_mono(p.emitted[j], pre, last, w);
            } else {
                assert(c is Some && r.emitted[j] == c->Some_0);
            }
        }
        assert(emitted_ok(r.emitted, full_at, pushes, w));
        assert(r.buf.kind == k && r.buf.full_at == full_at);
        assert(total_v(r.buf) == pushes.len());
    }
}

pub proof fn lemma_store_all(cs: Seq<ChunkV>, full_at: int, pushed: Seq<Row>, w: int)
    requires 0 < full_at, emitted_ok(cs, full_at, pushed, w),
    ensures
        store_ok(store_all(cs, w), pushed),
        store_exactly(store_all(cs, w), cs.len() * full_at),
    decreases cs.len(),
{
    if cs.len() == 0 {
        assert(cs.len() * full_at == 0) by(nonlinear_arith) requires cs.len() == 0;
    } else {
        let pre = cs.drop_last();
        let c = cs.last();
        assert(emitted_ok(pre, full_at, pushed, w)) by {
            assert forall|j: int| 0 <= j < pre.len() implies (#[trigger] pre[j]).idx == j && pre[j].len == full_at
                && pre[j].full_at == full_at && chunk_holds(pre[j], pushed, w) by { assert(pre[j] == cs[j]); }
        }
        lemma_store_all(pre, full_at, pushed, w);
        lemma_store_chunk_ok(store_all(pre, w), c, pushed, w);
        let n = cs.len() as int;
        assert(c.idx == n - 1);
        assert(n * full_at == (n - 1) * full_at + full_at) by(nonlinear_arith);
        assert(0 <= (n - 1) * full_at) by(nonlinear_arith) requires 1 <= n, 0 < full_at;
        let m = store_all(cs, w);
        assert forall|r: int| #[trigger] m.dom().contains(r) <==> 0 <= r < n * full_at by {
            if covers(c, r) { } else { assert(m.dom().contains(r) == store_all(pre, w).dom().contains(r)); }
        }
    }
}

// [C15] (i) completeness at a flush point: after any sequence of pushes followed by one flush, the
// rows written by the emitted full chunks plus the flush subset are exactly [0, total_pushed) and
// each holds the value pushed for it -- for every chunk size and every number of pushes.
// [C15]
pub proof fn lemma_flush_complete(k: ItemType, full_at: int, pushes: Seq<Row>, w: int)
    requires 0 < full_at, 0 <= w, uniform(pushes, w),
    ensures
        total_v(run(k, full_at, pushes).buf) == pushes.len(),
        store_exactly(store_after_flush(k, full_at, pushes, w), pushes.len() as int),
        store_ok(store_after_flush(k, full_at, pushes, w), pushes),
{
    let r = run(k, full_at, pushes);
    lemma_run(k, full_at, pushes, w);
    lemma_store_all(r.emitted, full_at, pushes, w);
    lemma_copy_holds(r.buf, pushes, w);
    let m0 = store_all(r.emitted, w);
    let m = store_after_flush(k, full_at, pushes, w);
    match copy_v(r.buf) {
        Some(c) => {
            lemma_store_chunk_ok(m0, c, pushes, w);
            assert forall|x: int| #[trigger] m.dom().contains(x) <==> 0 <= x < pushes.len() by {
                if covers(c, x) { } else { assert(m.dom().contains(x) == m0.dom().contains(x)); }
            }
        }
        None => { }
    }
}

// [C15] (ii) a later push re-emits an already flushed row only with the same value: when chunk c is
// finally emitted full, its first `len` rows are the rows of the earlier flush chunk (c, len), unchanged.
pub proof fn lemma_later_chunk_keeps_flushed_rows(k: ItemType, full_at: int, pushes: Seq<Row>, more: Seq<Row>, w: int)
    requires 0 < full_at, 0 <= w, uniform(pushes, w), uniform(more, w),
    ensures ({
        let r1 = run(k, full_at, pushes);
        let r2 = run(k, full_at, pushes + more);
        // full chunks already emitted stay the same values (same idx, same rows)
        &&& r1.emitted.len() <= r2.emitted.len()
        &&& forall|j: int, i: int| 0 <= j < r1.emitted.len() && 0 <= i < full_at ==>
                #[trigger] row_at(r2.emitted[j].flat, i, w) == row_at(r1.emitted[j].flat, i, w)
        // the chunk that was flushed partially: if it has been emitted meanwhile, it starts with the flushed rows
        &&& (copy_v(r1.buf) is Some && r2.emitted.len() > r1.buf.cur ==> {
                let f = copy_v(r1.buf)->Some_0;
                let c = r2.emitted[r1.buf.cur];
                c.idx == f.idx && f.len <= c.len
                && forall|i: int| 0 <= i < f.len ==> #[trigger] row_at(c.flat, i, w) == row_at(f.flat, i, w) })
        // … and if it is still being filled, the buffer starts with the flushed rows
        &&& (copy_v(r1.buf) is Some && r2.emitted.len() == r1.buf.cur ==> {
                let f = copy_v(r1.buf)->Some_0;
                r2.buf.cur == f.idx && f.len <= r2.buf.len
                && forall|i: int| 0 <= i < f.len ==> #[trigger] row_at(r2.buf.flat, i, w) == row_at(f.flat, i, w) })
    }),
{
    let all = pushes + more;
    assert(uniform(all, w)) by {
        assert forall|i: int| 0 <= i < all.len() implies (#[trigger] all[i]).len() == w by {
            if i < pushes.len() { assert(all[i] == pushes[i]); } else { assert(all[i] == more[i - pushes.len()]); }
        }
    }
    lemma_run(k, full_at, pushes, w);
    lemma_run(k, full_at, all, w);
    let r1 = run(k, full_at, pushes);
    let r2 = run(k, full_at, all);
    let c1 = r1.buf.cur;
    let c2 = r2.buf.cur;
    assert(0 <= c1 * full_at) by(nonlinear_arith) requires 0 <= c1, 0 < full_at;
    // c1*full_at + len1 == |pushes| <= |all| == c2*full_at + len2 with len < full_at  ==>  c1 <= c2
    assert(c1 <= c2) by(nonlinear_arith)
        requires c1 * full_at + r1.buf.len <= c2 * full_at + r2.buf.len, 0 <= r1.buf.len, r2.buf.len < full_at, 0 < full_at;
    assert forall|j: int, i: int| 0 <= j < r1.emitted.len() && 0 <= i < full_at implies
        #[trigger] row_at(r2.emitted[j].flat, i, w) == row_at(r1.emitted[j].flat, i, w) by {
        assert(0 <= j * full_at) by(nonlinear_arith) requires 0 <= j, 0 < full_at;
        assert(chunk_holds(r1.emitted[j], pushes, w));
        assert(chunk_holds(r2.emitted[j], all, w));
        assert(row_at(r1.emitted[j].flat, i, w) == pushes[j * full_at + i]);
        assert(row_at(r2.emitted[j].flat, i, w) == all[j * full_at + i]);
    }
    if copy_v(r1.buf) is Some {
        let f = copy_v(r1.buf)->Some_0;
        if r2.emitted.len() > c1 {
            let c = r2.emitted[c1];
            assert(chunk_holds(c, all, w));
            assert forall|i: int| 0 <= i < f.len implies #[trigger] row_at(c.flat, i, w) == row_at(f.flat, i, w) by {
                assert(row_at(f.flat, i, w) == pushes[c1 * full_at + i]);
                assert(row_at(c.flat, i, w) == all[c1 * full_at + i]);
            }
        } else {
            assert(c2 == c1);
            assert forall|i: int| 0 <= i < f.len implies #[trigger] row_at(r2.buf.flat, i, w) == row_at(f.flat, i, w) by {
                assert(row_at(f.flat, i, w) == pushes[c1 * full_at + i]);
                assert(row_at(r2.buf.flat, i, w) == all[c1 * full_at + i]);
            }
        }
    }
}

// =====================================================================================
// Interleaved history: any sequence of push / flush / reset (the warm-up -> sampling switch and
// finalisation call `reset`, write the returned chunk to the array of the phase that ends, and
// continue into a fresh array).  One `Phase` per array.
// =====================================================================================
pub enum Op { Push(Row), Flush, Reset }
/// an array and the rows recorded into it, in order
pub struct Phase { pub store: IMap<int, Row>, pub pushed: Seq<Row> }
pub struct Sys { pub buf: BufV, pub cur: Phase, pub closed: Seq<Phase> }

pub open spec fn empty_phase() -> Phase { Phase { store: IMap::<int, Row>::empty(), pushed: Seq::<Row>::empty() } }

pub open spec fn step(s: Sys, op: Op, w: int) -> Sys {
    match op {
        // ZarrChainStorage::push_draw / push_param: `if let Some(chunk) = buffer.push(value) { store_zarr_chunk(..) }`
        Op::Push(row) => {
            let (c, b) = push_v(s.buf, row);
            Sys { buf: b, cur: Phase { store: store_opt(s.cur.store, c, w), pushed: s.cur.pushed.push(row) }, closed: s.closed }
        },
        // ChainStorage::flush: `if let Some(temp_chunk) = buffer.copy_as_chunk() { store_zarr_chunk(..) }`
        Op::Flush => Sys { buf: s.buf, cur: Phase { store: store_opt(s.cur.store, copy_v(s.buf), w), pushed: s.cur.pushed }, closed: s.closed },
        // record_sample (first sampling draw) / finalize: `if let Some(chunk) = buffer.reset() { store_zarr_chunk(old array, ..) }`
        Op::Reset => {
            let (c, b) = reset_v(s.buf);
            Sys { buf: b, cur: empty_phase(), closed: s.closed.push(Phase { store: store_opt(s.cur.store, c, w), pushed: s.cur.pushed }) }
        },
    }
}
pub open spec fn exec(k: ItemType, full_at: int, ops: Seq<Op>, w: int) -> Sys
    decreases ops.len()
{
    if ops.len() == 0 {
        Sys { buf: init_v(k, full_at), cur: empty_phase(), closed: Seq::<Phase>::empty() }
    } else {
        step(exec(k, full_at, ops.drop_last(), w), ops.last(), w)
    }
}
pub open spec fn op_ok(op: Op, w: int) -> bool { op is Push ==> op->Push_0.len() == w }
pub open spec fn ops_ok(ops: Seq<Op>, w: int) -> bool { forall|i: int| 0 <= i < ops.len() ==> op_ok(#[trigger] ops[i], w) }

/// a fresh reader of the array sees exactly the rows recorded into it, each with its value
pub open spec fn phase_complete(p: Phase) -> bool { store_exactly(p.store, p.pushed.len() as int) && store_ok(p.store, p.pushed) }

pub open spec fn sys_inv(s: Sys, w: int) -> bool {
    &&& buf_holds(s.buf, s.cur.pushed, w)
    &&& store_ok(s.cur.store, s.cur.pushed)
    // every full chunk has been written
    &&& forall|r: int| 0 <= r < s.buf.cur * s.buf.full_at ==> #[trigger] s.cur.store.dom().contains(r)
    // arrays of finished phases are complete
    &&& forall|i: int| 0 <= i < s.closed.len() ==> phase_complete(#[trigger] s.closed[i])
}

// [C15] one step of push / flush / reset: (i) right after a flush -- and after a reset for the array
// that is closed -- the array holds exactly the recorded rows with their values, whatever the relation
// of the number of rows to the chunk size; (ii) no step removes or changes a row already in an array.
// [C15]
pub proof fn lemma_step(s: Sys, op: Op, w: int)
    requires sys_inv(s, w), op_ok(op, w),
    ensures
        sys_inv(step(s, op, w), w),
        step(s, op, w).buf.kind == s.buf.kind && step(s, op, w).buf.full_at == s.buf.full_at,
        op is Flush ==> phase_complete(step(s, op, w).cur) && step(s, op, w).buf == s.buf,
        op is Reset ==> step(s, op, w).closed.len() == s.closed.len() + 1
            && phase_complete(step(s, op, w).closed[s.closed.len() as int])
            && step(s, op, w).closed[s.closed.len() as int].pushed == s.cur.pushed
            && step(s, op, w).buf == init_v(s.buf.kind, s.buf.full_at)
            && step(s, op, w).cur == empty_phase(),
        // never corrupted: rows present stay present with the same value …
        !(op is Reset) ==> forall|r: int| s.cur.store.dom().contains(r) ==>
            #[trigger] step(s, op, w).cur.store.dom().contains(r) && step(s, op, w).cur.store[r] == s.cur.store[r],
        op is Reset ==> forall|r: int| s.cur.store.dom().contains(r) ==>
            #[trigger] step(s, op, w).closed[s.closed.len() as int].store.dom().contains(r)
            && step(s, op, w).closed[s.closed.len() as int].store[r] == s.cur.store[r],
        // … and closed arrays are never touched again
        forall|i: int| 0 <= i < s.closed.len() ==> #[trigger] step(s, op, w).closed[i] == s.closed[i],
{
    let t = step(s, op, w);
    let b = s.buf;
    let pushed = s.cur.pushed;
    assert(0 <= b.cur * b.full_at) by(nonlinear_arith) requires 0 <= b.cur, 0 < b.full_at;
    assert((b.cur + 1) * b.full_at == b.cur * b.full_at + b.full_at) by(nonlinear_arith);
    match op {
        Op::Push(row) => {
            let (c, b2) = push_v(b, row);
            let p2 = pushed.push(row);
            lemma_push_holds(b, pushed, row, w);
            lemma_store_ok_mono(s.cur.store, pushed, row);
            match c {
                Some(ch) => {
                    lemma_store_chunk_ok(s.cur.store, ch, p2, w);
                    assert forall|r: int| 0 <= r < b2.cur * b2.full_at implies #[trigger] t.cur.store.dom().contains(r) by {
                        if r < b.cur * b.full_at { assert(s.cur.store.dom().contains(r)); } else { assert(covers(ch, r)); }
                    }
                }
                None => { }
            }
        }
        Op::Flush => {
            lemma_copy_holds(b, pushed, w);
            match copy_v(b) {
                Some(ch) => {
                    lemma_store_chunk_ok(s.cur.store, ch, pushed, w);
                    assert forall|r: int| #[trigger] t.cur.store.dom().contains(r) <==> 0 <= r < pushed.len() by {
                        if 0 <= r < pushed.len() {
                            if r < b.cur * b.full_at { assert(s.cur.store.dom().contains(r)); } else { assert(covers(ch, r)); }
                        }
                    }
                }
                None => {
                    assert forall|r: int| #[trigger] t.cur.store.dom().contains(r) <==> 0 <= r < pushed.len() by {
                        if 0 <= r < pushed.len() { assert(s.cur.store.dom().contains(r)); }
                    }
                }
            }
        }
        Op::Reset => {
            lemma_copy_holds(b, pushed, w);
            let (c, b2) = reset_v(b);
            assert(c == copy_v(b));
            let closed_phase = t.closed[s.closed.len() as int];
            assert(closed_phase.store == store_opt(s.cur.store, copy_v(b), w));
            if b.len == 0 {
                assert(b.flat.len() == 0 * w);
                assert(b.flat =~= Seq::<Elem>::empty());
            }
            assert(b2 == init_v(b.kind, b.full_at));
            assert(b2.flat.len() == 0 * w);
            match copy_v(b) {
                Some(ch) => {
                    lemma_store_chunk_ok(s.cur.store, ch, pushed, w);
                    assert forall|r: int| #[trigger] closed_phase.store.dom().contains(r) <==> 0 <= r < pushed.len() by {
                        if 0 <= r < pushed.len() {
                            if r < b.cur * b.full_at { assert(s.cur.store.dom().contains(r)); } else { assert(covers(ch, r)); }
                        }
                    }
                }
                None => {
                    assert forall|r: int| #[trigger] closed_phase.store.dom().contains(r) <==> 0 <= r < pushed.len() by {
                        if 0 <= r < pushed.len() { assert(s.cur.store.dom().contains(r)); }
                    }
                }
            }
            assert forall|i: int| 0 <= i < t.closed.len() implies phase_complete(#[trigger] t.closed[i]) by {
                if i < s.closed.len() { assert(t.closed[i] == s.closed[i]); }
            }
            assert(0 * b2.full_at == 0);
        }
    }
}

// [C15] the invariant holds after ANY sequence of push / flush / reset on a fresh buffer, for every
// chunk size full_at >= 1 and every row width
pub proof fn lemma_exec(k: ItemType, full_at: int, ops: Seq<Op>, w: int)
    requires 0 < full_at, 0 <= w, ops_ok(ops, w),
    ensures
        sys_inv(exec(k, full_at, ops, w), w),
        exec(k, full_at, ops, w).buf.kind == k && exec(k, full_at, ops, w).buf.full_at == full_at,
        // C15: a reader right after a flush sees every row recorded so far into the current array
        ops.len() > 0 && ops.last() is Flush ==> phase_complete(exec(k, full_at, ops, w).cur),
        // C15: after finalisation / the warm-up switch the closed array is complete
        ops.len() > 0 && ops.last() is Reset ==> exec(k, full_at, ops, w).closed.len() > 0
            && phase_complete(exec(k, full_at, ops, w).closed.last()),
    decreases ops.len(),
{
    if ops.len() == 0 {
        let s = exec(k, full_at, ops, w);
        assert(s.buf.flat.len() == 0 * w);
        assert(0 * full_at == 0);
    } else {
        let pre = ops.drop_last();
        assert(ops_ok(pre, w)) by {
            assert forall|i: int| 0 <= i < pre.len() implies op_ok(#[trigger] pre[i], w) by { assert(pre[i] == ops[i]); }
        }
        lemma_exec(k, full_at, pre, w);
        assert(op_ok(ops[ops.len() - 1], w));
        lemma_step(exec(k, full_at, pre, w), ops.last(), w);
    }
}
