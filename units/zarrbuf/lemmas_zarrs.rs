// =====================================================================================
// store_zarr_chunk: the meaning of the zarrs write calls (A-zarrs) in units of the C15 model
// =====================================================================================
pub enum WriteOp {
    /// `array.store_chunk(chunk_indices, data)`
    Chunk { chunk: Seq<u64>, data: Seq<Elem> },
    /// `array.store_chunk_subset(chunk_indices, subset, data)`
    ChunkSubset { chunk: Seq<u64>, start: Seq<u64>, shape: Seq<u64>, data: Seq<Elem> },
    /// `array.store_array_subset(subset, data)`
    ArraySubset { start: Seq<u64>, shape: Seq<u64>, data: Seq<Elem> },
}
/// rows [start, start+len) of chain `chain` receive `data` (row-major: row i is
/// data[i*w, (i+1)*w) with w the product of the extra dimensions)
pub struct Write { pub chain: int, pub start: int, pub len: int, pub data: Seq<Elem> }

pub open spec fn prod_from(s: Seq<u64>, i: int) -> int
    decreases s.len() - i
{
    if i < 0 || i >= s.len() { 1 } else { s[i] as int * prod_from(s, i + 1) }
}

/// an array as `create_arrays` builds it: shape [n_chains, n_draws, extra…],
/// regular chunk grid [1, draw_chunk_size, max(extra, 1)…]
pub open spec fn array_ok(shape: Seq<u64>, grid: Seq<u64>, full_at: int) -> bool {
    &&& shape.len() == grid.len() && shape.len() >= 2
    &&& grid[0] == 1 && grid[1] as int == full_at
    &&& forall|i: int| 2 <= i < shape.len() ==> (#[trigger] grid[i]) as int == (if shape[i] == 0 { 1int } else { shape[i] as int })
}

pub open spec fn zeros_from(s: Seq<u64>, i: int) -> bool { forall|j: int| i <= j < s.len() ==> #[trigger] s[j] == 0 }

/// A-zarrs: which rows of which chain each write call addresses (None: not a whole-row write of one chain)
pub open spec fn write_of(shape: Seq<u64>, grid: Seq<u64>, op: WriteOp) -> Option<Write> {
    match op {
        // chunk [c, k, 0, …, 0] of the grid [1, g, …] is chain c, rows [k*g, (k+1)*g)
        WriteOp::Chunk { chunk, data } =>
            if chunk.len() == grid.len() && zeros_from(chunk, 2) {
                Some(Write { chain: chunk[0] as int, start: chunk[1] * grid[1], len: grid[1] as int, data: data })
            } else { None },
        // subset [0, …, 0] + [1, n, extent of the extra dims…] of that chunk is chain c, rows [k*g, k*g + n)
        WriteOp::ChunkSubset { chunk, start, shape: sh, data } =>
            if chunk.len() == grid.len() && zeros_from(chunk, 2) && start.len() == grid.len() && zeros_from(start, 0)
                && sh.len() == grid.len() && sh[0] == 1 && sh[1] <= grid[1]
                && (forall|i: int| 2 <= i < sh.len() ==> #[trigger] sh[i] == shape[i]) {
                Some(Write { chain: chunk[0] as int, start: chunk[1] * grid[1], len: sh[1] as int, data: data })
            } else { None },
        // array subset start [c, s], shape [1, n] of a rank-2 array is chain c, rows [s, s + n)
        WriteOp::ArraySubset { start, shape: sh, data } =>
            if grid.len() == 2 && start.len() == 2 && sh.len() == 2 && sh[0] == 1 {
                Some(Write { chain: start[0] as int, start: start[1] as int, len: sh[1] as int, data: data })
            } else { None },
    }
}
/// the write chunk `c` of chain `chain` stands for (cf. `covers` / `store_chunk_v`)
pub open spec fn write_for(c: ChunkV, chain: int) -> Write {
    Write { chain: chain, start: c.idx * c.full_at, len: c.len, data: c.flat }
}

pub proof fn lemma_prod_suffix(a: Seq<u64>, b: Seq<u64>, i: int)
    requires a.len() == b.len(), 0 <= i, forall|j: int| i <= j < a.len() ==> a[j] == b[j],
    ensures prod_from(a, i) == prod_from(b, i),
    decreases a.len() - i,
{
    if i < a.len() { lemma_prod_suffix(a, b, i + 1); }
}
// shape of the partial-chunk subset: `shape[0] = 1; shape[1] = len` (in either order) on a copy of
// the array shape.  Two general facts, used through `broadcast use group_prod`.
pub broadcast proof fn lemma_prod_unfold2(s: Seq<u64>)
    requires s.len() >= 2,
    ensures #[trigger] prod_from(s, 0) == s[0] as int * (s[1] as int * prod_from(s, 2)),
{
    assert(prod_from(s, 1) == s[1] as int * prod_from(s, 2));
    assert(prod_from(s, 0) == s[0] as int * prod_from(s, 1));
}
pub broadcast proof fn lemma_prod_update_below(base: Seq<u64>, i: int, x: u64, j: int)
    requires 0 <= i < j, i < base.len(),
    ensures #[trigger] prod_from(base.update(i, x), j) == prod_from(base, j),
{
    lemma_prod_suffix(base.update(i, x), base, j);
}
/// the two orders in which `shape[0] = a; shape[1] = b` can be written, in one step
pub broadcast proof fn lemma_prod_upd01(base: Seq<u64>, a: u64, b: u64)
    requires base.len() >= 2,
    ensures #[trigger] prod_from(base.update(0, a).update(1, b), 0) == a as int * (b as int * prod_from(base, 2)),
{
    let s = base.update(0, a).update(1, b);
    lemma_prod_suffix(s, base, 2);
    lemma_prod_unfold2(s);
}
pub broadcast proof fn lemma_prod_upd10(base: Seq<u64>, a: u64, b: u64)
    requires base.len() >= 2,
    ensures #[trigger] prod_from(base.update(1, b).update(0, a), 0) == a as int * (b as int * prod_from(base, 2)),
{
    let s = base.update(1, b).update(0, a);
    lemma_prod_suffix(s, base, 2);
    lemma_prod_unfold2(s);
}
pub broadcast group group_prod { lemma_prod_unfold2, lemma_prod_update_below, lemma_prod_upd01, lemma_prod_upd10 }

// [C15] the write `store_zarr_chunk` is allowed to make for chunk `c` addresses exactly the rows
// `covers(c, ·)` of the history model, i.e. its effect under A-zarrs is `store_chunk_v`.
pub proof fn lemma_write_for_covers(c: ChunkV, chain: int, r: int)
    ensures covers(c, r) <==> write_for(c, chain).start <= r < write_for(c, chain).start + write_for(c, chain).len,
            write_for(c, chain).data == c.flat,
{
}
