// Prelude of unit `zarrbuf`: everything the extracted code calls but that is not extracted here.
// Each contract below is an ASSUMPTION of this unit (ids A-mem-replace, A-vec-extend; for DESIGN §6).  Nothing in /repo implements
// these functions, they are std library functions.
use std::mem::replace;

// ---- A-mem-replace: `std::mem::replace(dest, src)` returns the old `*dest` and stores `src`.
pub assume_specification<T> [std::mem::replace] (dest: &mut T, src: T) -> (r: T)
    ensures r == *old(dest), *final(dest) == src;

// ---- A-vec-extend (same stub text as unit hashmap): `Vec<T>::extend(Vec<T>)` appends the elements of the argument, in order.
// vstd has no specification for `<Vec<T, A> as Extend<T>>::extend` and one cannot be given from
// here (`A: Allocator` needs a crate-level feature gate), so rule R9.method renames the five
// calls `vec.extend(v)` in `SampleBuffer::push` to `vec.vx_extend(v)`; the stub's body is the
// original call.
pub trait VxExtend<T>: Sized {
    spec fn vx_view(&self) -> Seq<T>;
    fn vx_extend(&mut self, v: Vec<T>)
        ensures final(self).vx_view() == old(self).vx_view() + v@;
}
impl<T> VxExtend<T> for Vec<T> {
    open spec fn vx_view(&self) -> Seq<T> { self@ }
    #[verifier::external_body]
    fn vx_extend(&mut self, v: Vec<T>) { self.extend(v) }
}
