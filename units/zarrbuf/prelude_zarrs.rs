// Façade of the `zarrs` / `anyhow` / `std::iter` API used by `store_zarr_chunk` (sync_impl.rs).
// Nothing behind the zarrs API is verified.  What IS verified: every write call made by
// `store_zarr_chunk` addresses exactly the region the chunk stands for.  `&Array` is immutable
// (zarrs writes through interior mutability), so a ghost `written` field cannot be updated by the
// stubs; instead each write stub REQUIRES `array.expects(op)` and the contract of
// `store_zarr_chunk` grants `expects` only for operations whose A-zarrs meaning (`write_of`,
// lemmas.rs) is the write the chunk stands for.  Every stub below is an assumption (A-zarrs,
// A-iter, A-anyhow); they are weak: no stub promises anything about the outcome of a write.

pub struct ZErr {}
/// anyhow::Error
pub struct AnyErr {}
/// anyhow::Result
pub type Result<T> = core::result::Result<T, AnyErr>;

#[verifier::external_body]
pub fn opaque_string() -> String { unimplemented!() }

// ---- A-anyhow: `.context(..)` keeps Ok/Err and the Ok value
pub trait Context<T>: Sized {
    spec fn ctx_ok(&self) -> Option<T>;
    fn context<C>(self, c: C) -> (r: core::result::Result<T, AnyErr>)
        ensures (r is Ok) == (self.ctx_ok() is Some), r is Ok ==> r->Ok_0 == self.ctx_ok()->Some_0;
}
impl<T, E> Context<T> for core::result::Result<T, E> {
    open spec fn ctx_ok(&self) -> Option<T> { match *self { Ok(v) => Some(v), Err(_) => None } }
    #[verifier::external_body]
    fn context<C>(self, c: C) -> (r: core::result::Result<T, AnyErr>) { unimplemented!() }
}

// ---- A-iter: the four std iterator adapters used to build the chunk index vector, on a façade
// iterator whose view is a finite prefix `fin` followed, if `rep` is Some(x), by x forever.
#[verifier::external_body]
#[verifier::reject_recursive_types(T)]
pub struct It<T> { _p: core::marker::PhantomData<T> }
impl<T> It<T> {
    pub uninterp spec fn fin(&self) -> Seq<T>;
    pub uninterp spec fn rep(&self) -> Option<T>;
    #[verifier::external_body]
    pub fn chain(self, o: It<T>) -> (r: It<T>)
        requires self.rep() is None,
        ensures r.fin() == self.fin() + o.fin(), r.rep() == o.rep(),
    { unimplemented!() }
    #[verifier::external_body]
    pub fn cycle(self) -> (r: It<T>)
        requires self.rep() is None, self.fin().len() == 1,
        ensures r.fin() == Seq::<T>::empty(), r.rep() == Some(self.fin()[0]),
    { unimplemented!() }
    #[verifier::external_body]
    pub fn take(self, n: usize) -> (r: It<T>)
        requires self.fin().len() == 0, self.rep() is Some,
        ensures r.fin() == Seq::new(n as nat, |i: int| self.rep()->Some_0), r.rep() is None,
    { unimplemented!() }
    #[verifier::external_body]
    pub fn collect(self) -> (r: Vec<T>)
        requires self.rep() is None,
        ensures r@ == self.fin(),
    { unimplemented!() }
}
/// std::iter::once
#[verifier::external_body]
pub fn once<T>(x: T) -> (r: It<T>)
    ensures r.fin() == seq![x], r.rep() is None,
{ unimplemented!() }

// ---- A-zarrs: the array façade
/// `array.shape()`: the real function returns `&[u64]`; the façade type only offers `.iter().cloned()`
#[verifier::external_body]
pub struct Shape { _p: () }
#[verifier::external_body]
pub struct ShapeIter { _p: () }
impl Shape {
    pub uninterp spec fn dims(&self) -> Seq<u64>;
    #[verifier::external_body]
    pub fn iter(&self) -> (r: ShapeIter) ensures r.dims() == self.dims() { unimplemented!() }
}
impl ShapeIter {
    pub uninterp spec fn dims(&self) -> Seq<u64>;
    #[verifier::external_body]
    pub fn cloned(self) -> (r: It<u64>) ensures r.fin() == self.dims(), r.rep() is None { unimplemented!() }
}
#[verifier::external_body]
pub struct ChunkGrid { _p: () }
impl ChunkGrid {
    pub uninterp spec fn rank(&self) -> int;
    #[verifier::external_body]
    pub fn dimensionality(&self) -> (r: usize) ensures r as int == self.rank() { unimplemented!() }
}

pub struct ArraySubset { pub start: Vec<u64>, pub shape: Vec<u64> }
impl ArraySubset {
    #[verifier::external_body]
    pub fn new_with_start_shape(start: Vec<u64>, shape: Vec<u64>) -> (r: core::result::Result<ArraySubset, ZErr>)
        ensures r is Ok ==> r->Ok_0.start@ == start@ && r->Ok_0.shape@ == shape@ && start@.len() == shape@.len(),
    { unimplemented!() }
    #[verifier::external_body]
    pub fn new_with_shape(shape: Vec<u64>) -> (r: ArraySubset)
        ensures r.shape@ == shape@, r.start@ == Seq::new(shape@.len(), |i: int| 0u64),
    { unimplemented!() }
    /// zarrs: `usize::try_from(self.num_elements()).unwrap()`
    #[verifier::external_body]
    pub fn num_elements_usize(&self) -> (r: usize)
        requires prod_from(self.shape@, 0) <= usize::MAX,
        ensures r as int == prod_from(self.shape@, 0),
    { unimplemented!() }
}

#[verifier::external_body]
pub struct Array { _p: () }
impl Array {
    /// array shape / regular chunk shape, as created by `create_arrays`
    pub uninterp spec fn shape_v(&self) -> Seq<u64>;
    pub uninterp spec fn grid_v(&self) -> Seq<u64>;
    /// the write operations the caller allows (see header)
    pub uninterp spec fn expects(&self, op: WriteOp) -> bool;

    #[verifier::external_body]
    pub fn chunk_grid(&self) -> (r: &ChunkGrid) ensures r.rank() == self.grid_v().len() { unimplemented!() }
    #[verifier::external_body]
    pub fn shape(&self) -> (r: &Shape) ensures r.dims() == self.shape_v() { unimplemented!() }
    #[verifier::external_body]
    pub fn path(&self) -> (r: &str) { unimplemented!() }

    #[verifier::external_body]
    pub fn store_chunk<T: ZElem>(&self, chunk_indices: &[u64], chunk_data: &Vec<T>) -> (r: core::result::Result<(), ZErr>)
        requires self.expects(WriteOp::Chunk { chunk: chunk_indices@, data: wrap(chunk_data@) }),
    { unimplemented!() }
    #[verifier::external_body]
    pub fn store_chunk_subset<T: ZElem>(&self, chunk_indices: &[u64], chunk_subset: &ArraySubset, data: &Vec<T>) -> (r: core::result::Result<(), ZErr>)
        requires self.expects(WriteOp::ChunkSubset { chunk: chunk_indices@, start: chunk_subset.start@, shape: chunk_subset.shape@, data: wrap(data@) }),
    { unimplemented!() }
    #[verifier::external_body]
    pub fn store_array_subset<T: ZElem>(&self, subset: &ArraySubset, data: &Vec<T>) -> (r: core::result::Result<(), ZErr>)
        requires self.expects(WriteOp::ArraySubset { start: subset.start@, shape: subset.shape@, data: wrap(data@) }),
    { unimplemented!() }
}
