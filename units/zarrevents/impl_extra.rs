    // ghost items spliced into `impl ChainStorage for ZarrChainStorage` (rule R1: contracts)
    open spec fn inspect_pre(&self) -> bool {
        insp_pre(*self)
    }
    open spec fn inspect_post(&self, r: Result<Option<HashMap<String, (u64, u64)>>>) -> bool {
        insp_post(*self, r)
    }
