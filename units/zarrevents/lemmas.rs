// =====================================================================================
// Specification vocabulary of C14 for the event counts of the Zarr backends, from the property statement:
// "event statistics contain exactly the events that occurred".  Per chain the backend reports, for every event
// dimension (e.g. "divergence", "transformation_update"), how many events occurred during warmup and during
// sampling; ZarrTraceStorage::finalize then cuts every array of that dimension to that length.  A statistic
// FIELD of an event dimension gets one entry per event on which it has a value; a field that is never populated
// (divergence_momentum without store_divergences, mass_matrix_inv without store_mass_matrix) stays empty.  The
// fields that ARE populated on an event are pushed together (nuts-storable: "all fields sharing the same event
// dimension produce a value on exactly the same set of draws"), and at least one field of each dimension is
// populated on every event (divergence_draw, transformation_update_id).  Hence
//     number of events of dimension d  =  max over the fields f of d of  total_pushed(buffer of f).
// =====================================================================================

/// `SampleBuffer::total_pushed` in mathematical integers (same formula as [C15.total] of unit zarrbuf)
pub open spec fn total_of(b: SampleBuffer) -> int {
    b.current_chunk as int * b.full_at as int + b.len as int
}

pub type Bufs = Map<Seq<char>, SampleBuffer>;
/// field -> its event dimension
pub type DimOf = Map<Seq<char>, Seq<char>>;

/// entries recorded for field `f` (a field without buffer has none)
pub open spec fn pushed(bufs: Bufs, f: Seq<char>) -> int {
    if bufs.contains_key(f) { total_of(bufs[f]) } else { 0 }
}
/// A-nooverflow
pub open spec fn bufs_ok(bufs: Bufs) -> bool {
    forall|f: Seq<char>| bufs.contains_key(f) ==> total_of(#[trigger] bufs[f]) <= u64::MAX
}

/// `f` is a field of event dimension `d`
pub open spec fn field_of(e: DimOf, f: Seq<char>, d: Seq<char>) -> bool {
    e.contains_key(f) && e[f] == d
}

/// `c` is the number of events of dimension `d` as far as the fields in `v` tell:
/// the maximum of `pushed` over the fields of `d` in `v` (0 if there is none)
pub open spec fn is_count(e: DimOf, bufs: Bufs, v: Set<Seq<char>>, d: Seq<char>, c: int) -> bool {
    &&& forall|f: Seq<char>| v.contains(f) && #[trigger] field_of(e, f, d) ==> pushed(bufs, f) <= c
    &&& (c == 0 || exists|f: Seq<char>| v.contains(f) && #[trigger] field_of(e, f, d) && pushed(bufs, f) == c)
}

/// `.get(dim).copied().unwrap_or(0)`: how the count maps are read (finalize, TraceStorage::finalize)
pub open spec fn get0(c: Map<Seq<char>, u64>, d: Seq<char>) -> int {
    if c.contains_key(d) { c[d] as int } else { 0 }
}

/// [C14.7] invariant of the two count loops (record_sample: warmup_event_counts, finalize: sample_counts) after the
/// fields in `v` have been visited: every dimension reads as its number of events so far
pub open spec fn counts_inv(e: DimOf, bufs: Bufs, v: Set<Seq<char>>, c: Map<Seq<char>, u64>) -> bool {
    forall|d: Seq<char>| is_count(e, bufs, v, d, #[trigger] get0(c, d))
}

/// [C14.8] invariant of the loop of `inspect` (dimension -> (warmup count, current count)): exactly the dimensions of
/// the visited fields have an entry; it pairs the recorded warmup count with the number of events so far
pub open spec fn pairs_inv(e: DimOf, bufs: Bufs, w: Map<Seq<char>, u64>, v: Set<Seq<char>>, c: Map<Seq<char>, (u64, u64)>) -> bool {
    &&& forall|d: Seq<char>| #[trigger] c.contains_key(d) <==> exists|f: Seq<char>| v.contains(f) && #[trigger] field_of(e, f, d)
    &&& forall|d: Seq<char>| #[trigger] c.contains_key(d) ==> c[d].0 as int == get0(w, d) && is_count(e, bufs, v, d, c[d].1 as int)
}

/// what one iteration does to a count map when it takes the maximum
pub open spec fn counts_step(e: DimOf, bufs: Bufs, c: Map<Seq<char>, u64>, f: Seq<char>) -> Map<Seq<char>, u64> {
    if bufs.contains_key(f) {
        let n = pushed(bufs, f);
        let p = get0(c, e[f]);
        c.insert(e[f], (if p >= n { p } else { n }) as u64)
    } else {
        c
    }
}

// ---- A-hashmap-iter vocabulary: a sequence of (key, value) references enumerates a map
pub open spec fn enumerates<V>(all: Seq<(&String, &V)>, m: Map<Seq<char>, V>) -> bool {
    &&& forall|i: int| 0 <= i < all.len() ==> m.contains_key((#[trigger] all[i]).0@) && m[all[i].0@] == *all[i].1
    &&& forall|i: int, j: int| 0 <= i < j < all.len() ==> (#[trigger] all[i]).0@ != (#[trigger] all[j]).0@
    &&& forall|k: Seq<char>| m.contains_key(k) ==> exists|i: int| 0 <= i < all.len() && #[trigger] key_at(all, i) == k
}
pub open spec fn key_at<V>(all: Seq<(&String, &V)>, i: int) -> Seq<char> { all[i].0@ }
/// the fields visited by the first `pos` iterations
pub open spec fn visited<V>(all: Seq<(&String, &V)>, pos: int) -> Set<Seq<char>>
    decreases pos
{
    if pos <= 0 { Set::<Seq<char>>::empty() } else { visited(all, pos - 1).insert(key_at(all, pos - 1)) }
}
/// field -> event dimension, as character sequences (`event_dim_of_stat: HashMap<String, String>`)
pub open spec fn edims(m: HashMap<String, String>) -> DimOf {
    m@.map_values(|s: String| s@)
}

// ---- contract of ZarrChainStorage::inspect (impl_extra.rs delegates here)
pub open spec fn insp_pre(s: ZarrChainStorage) -> bool {
    bufs_ok(s.stats_buffers@)
}
pub open spec fn insp_post(s: ZarrChainStorage, r: Result<Option<HashMap<String, (u64, u64)>>>) -> bool {
    // [C14.8] inspecting succeeds and reports, for exactly the event dimensions of the chain, the recorded warmup
    // count and the number of events that occurred since (all fields visited)
    &&& r is Ok && r->Ok_0 is Some
    &&& pairs_inv(edims(s.event_dim_of_stat), s.stats_buffers@, s.warmup_event_counts@, edims(s.event_dim_of_stat).dom(), r->Ok_0->Some_0@)
}

// ---- lemmas -----------------------------------------------------------------------------

/// one more field visited: the count of its dimension becomes the maximum, the others are unchanged
// [C14.7]
pub proof fn lemma_count_step(e: DimOf, bufs: Bufs, v: Set<Seq<char>>, f: Seq<char>, d: Seq<char>, c: int)
    requires is_count(e, bufs, v, d, c), e.contains_key(f), 0 <= c,
    ensures is_count(e, bufs, v.insert(f), d, if e[f] == d && pushed(bufs, f) > c { pushed(bufs, f) } else { c }),
{
    let v2 = v.insert(f);
    let n = pushed(bufs, f);
    let c2 = if e[f] == d && n > c { n } else { c };
    assert forall|g: Seq<char>| v2.contains(g) && #[trigger] field_of(e, g, d) implies pushed(bufs, g) <= c2 by {
        if g != f { assert(v.contains(g)); }
    }
    if c2 != 0 {
        if e[f] == d && n > c {
            assert(v2.contains(f) && field_of(e, f, d) && pushed(bufs, f) == c2);
        } else {
            let g = choose|g: Seq<char>| v.contains(g) && #[trigger] field_of(e, g, d) && pushed(bufs, g) == c;
            assert(v2.contains(g) && field_of(e, g, d) && pushed(bufs, g) == c2);
        }
    }
}

/// [C14.7] the step of the count loops: visiting field `f` and taking the maximum keeps the invariant
// [C14.7]
pub proof fn lemma_counts_step(e: DimOf, bufs: Bufs, v: Set<Seq<char>>, c: Map<Seq<char>, u64>, f: Seq<char>)
    requires counts_inv(e, bufs, v, c), e.contains_key(f), bufs_ok(bufs),
    ensures counts_inv(e, bufs, v.insert(f), counts_step(e, bufs, c, f)),
{
    let c2 = counts_step(e, bufs, c, f);
    assert forall|d: Seq<char>| is_count(e, bufs, v.insert(f), d, #[trigger] get0(c2, d)) by {
        assert(is_count(e, bufs, v, d, get0(c, d)));
        lemma_count_step(e, bufs, v, f, d, get0(c, d));
        if bufs.contains_key(f) {
            assert(total_of(bufs[f]) <= u64::MAX);
        }
    }
}

/// nothing visited: every dimension reads 0
// [C14.7]
pub proof fn lemma_counts_init(e: DimOf, bufs: Bufs)
    ensures counts_inv(e, bufs, Set::<Seq<char>>::empty(), Map::<Seq<char>, u64>::empty()),
{
}

/// all fields visited: the counts no longer depend on the visiting order (the set of visited fields only matters
/// through the fields of the chain)
// [C14.7]
pub proof fn lemma_counts_final(e: DimOf, bufs: Bufs, v: Set<Seq<char>>, c: Map<Seq<char>, u64>)
    requires counts_inv(e, bufs, v, c), forall|f: Seq<char>| e.contains_key(f) ==> v.contains(f),
    ensures counts_inv(e, bufs, e.dom(), c),
{
    assert forall|d: Seq<char>| is_count(e, bufs, e.dom(), d, #[trigger] get0(c, d)) by {
        assert(is_count(e, bufs, v, d, get0(c, d)));
        let n = get0(c, d);
        if n != 0 {
            let g = choose|g: Seq<char>| v.contains(g) && #[trigger] field_of(e, g, d) && pushed(bufs, g) == n;
            assert(e.dom().contains(g) && field_of(e, g, d));
        }
    }
}

/// the property itself: if `n` events of dimension `d` occurred, no field of `d` holds more than `n` entries and
/// some field (the one populated on every event) holds exactly `n`, then the reported count is `n` --
/// no matter which other fields of the dimension were never populated, and in whatever order they were visited
// [C14.7]
pub proof fn lemma_count_is_events(e: DimOf, bufs: Bufs, d: Seq<char>, c: int, n: int, always: Seq<char>)
    requires
        is_count(e, bufs, e.dom(), d, c),
        forall|f: Seq<char>| #[trigger] field_of(e, f, d) ==> pushed(bufs, f) <= n,
        field_of(e, always, d) && pushed(bufs, always) == n,
        0 <= n,
    ensures c == n,
{
    assert(e.dom().contains(always));
    if c != 0 {
        let g = choose|g: Seq<char>| e.dom().contains(g) && #[trigger] field_of(e, g, d) && pushed(bufs, g) == c;
        assert(pushed(bufs, g) <= n);
    }
}

/// the defect in words of the model: a rule that keeps the count of the FIRST visited field of a dimension does
/// not satisfy the invariant -- two fields of one dimension, the never-populated one visited first
// [C14.7]
pub proof fn lemma_first_field_rule_is_wrong(e: DimOf, bufs: Bufs, empty_f: Seq<char>, full_f: Seq<char>, d: Seq<char>)
    requires
        field_of(e, empty_f, d), field_of(e, full_f, d), empty_f != full_f,
        pushed(bufs, empty_f) == 0, pushed(bufs, full_f) > 0,
    ensures
        // after visiting `empty_f` then `full_f`, the map {d -> 0} (what the first-field rule leaves) violates the invariant
        !counts_inv(e, bufs, set![empty_f, full_f], map![d => 0u64]),
{
    let v = set![empty_f, full_f];
    let c = map![d => 0u64];
    if counts_inv(e, bufs, v, c) {
        assert(is_count(e, bufs, v, d, get0(c, d)));
        assert(v.contains(full_f) && field_of(e, full_f, d));
        assert(pushed(bufs, full_f) <= 0);
    }
}

/// what one iteration of the `inspect` loop does when it takes the maximum
pub open spec fn pairs_step(e: DimOf, bufs: Bufs, w: Map<Seq<char>, u64>, c: Map<Seq<char>, (u64, u64)>, f: Seq<char>) -> Map<Seq<char>, (u64, u64)> {
    let p = if c.contains_key(e[f]) { c[e[f]].1 as int } else { 0 };
    let n = pushed(bufs, f);
    c.insert(e[f], (get0(w, e[f]) as u64, (if p >= n { p } else { n }) as u64))
}

/// step of the `inspect` loop
// [C14.8]
pub proof fn lemma_pairs_step(e: DimOf, bufs: Bufs, w: Map<Seq<char>, u64>, v: Set<Seq<char>>,
                              c: Map<Seq<char>, (u64, u64)>, f: Seq<char>, c2: Map<Seq<char>, (u64, u64)>)
    requires
        pairs_inv(e, bufs, w, v, c), e.contains_key(f), bufs_ok(bufs),
        c2 == pairs_step(e, bufs, w, c, f),
    ensures pairs_inv(e, bufs, w, v.insert(f), c2),
{
    let v2 = v.insert(f);
    let d0 = e[f];
    if bufs.contains_key(f) { assert(total_of(bufs[f]) <= u64::MAX); }
    assert forall|d: Seq<char>| #[trigger] c2.contains_key(d) <==> exists|g: Seq<char>| v2.contains(g) && #[trigger] field_of(e, g, d) by {
        if c2.contains_key(d) {
            if d == d0 {
                assert(v2.contains(f) && field_of(e, f, d));
            } else {
                assert(c.contains_key(d));
                let g = choose|g: Seq<char>| v.contains(g) && #[trigger] field_of(e, g, d);
                assert(v2.contains(g) && field_of(e, g, d));
            }
        }
        if exists|g: Seq<char>| v2.contains(g) && #[trigger] field_of(e, g, d) {
            let g = choose|g: Seq<char>| v2.contains(g) && #[trigger] field_of(e, g, d);
            if g != f {
                assert(v.contains(g) && field_of(e, g, d));
                assert(c.contains_key(d));
            }
        }
    }
    assert forall|d: Seq<char>| #[trigger] c2.contains_key(d) implies c2[d].0 as int == get0(w, d) && is_count(e, bufs, v2, d, c2[d].1 as int) by {
        if d == d0 {
            if c.contains_key(d) {
                lemma_count_step(e, bufs, v, f, d, c[d].1 as int);
            } else {
                // no field of d visited yet: the count so far is 0
                assert forall|g: Seq<char>| v.contains(g) && #[trigger] field_of(e, g, d) implies pushed(bufs, g) <= 0 by {
                    assert(c.contains_key(d));
                }
                assert(is_count(e, bufs, v, d, 0));
                lemma_count_step(e, bufs, v, f, d, 0);
            }
        } else {
            assert(c.contains_key(d));
            lemma_count_step(e, bufs, v, f, d, c[d].1 as int);
        }
    }
}

/// `visited` grows by one key per iteration (by definition) ...
// [C14.8]
pub proof fn lemma_visited_step<V>(all: Seq<(&String, &V)>, pos: int)
    requires 0 <= pos < all.len()
    ensures visited(all, pos + 1) == visited(all, pos).insert(key_at(all, pos)), visited(all, 0) == Set::<Seq<char>>::empty()
{
}
// [C14.8]
pub proof fn lemma_visited_char<V>(all: Seq<(&String, &V)>, pos: int)
    requires 0 <= pos
    ensures forall|k: Seq<char>| #[trigger] visited(all, pos).contains(k) <==> exists|i: int| 0 <= i < pos && #[trigger] key_at(all, i) == k
    decreases pos
{
    if pos > 0 {
        lemma_visited_char(all, pos - 1);
        assert forall|k: Seq<char>| #[trigger] visited(all, pos).contains(k) <==> exists|i: int| 0 <= i < pos && #[trigger] key_at(all, i) == k by {
            if visited(all, pos).contains(k) {
                if k == key_at(all, pos - 1) {
                } else {
                    assert(visited(all, pos - 1).contains(k));
                    let i = choose|i: int| 0 <= i < pos - 1 && #[trigger] key_at(all, i) == k;
                    assert(0 <= i < pos && key_at(all, i) == k);
                }
            }
            if exists|i: int| 0 <= i < pos && #[trigger] key_at(all, i) == k {
                let i = choose|i: int| 0 <= i < pos && #[trigger] key_at(all, i) == k;
                if i < pos - 1 {
                    assert(visited(all, pos - 1).contains(k));
                }
            }
        }
    }
}
/// ... and when the iterator is exhausted every field has been visited
// [C14.8]
pub proof fn lemma_visited_all<V>(all: Seq<(&String, &V)>, m: Map<Seq<char>, V>)
    requires enumerates(all, m)
    ensures visited(all, all.len() as int) == m.dom()
{
    lemma_visited_char(all, all.len() as int);
    assert forall|k: Seq<char>| visited(all, all.len() as int).contains(k) <==> m.dom().contains(k) by {
        if visited(all, all.len() as int).contains(k) {
            let i = choose|i: int| 0 <= i < all.len() && #[trigger] key_at(all, i) == k;
            assert(m.contains_key(all[i].0@));
        }
    }
    assert(visited(all, all.len() as int) =~= m.dom());
}

/// unfixed text only: `seen` is the set of dimensions of the visited fields
pub open spec fn seen_ok(e: DimOf, v: Set<Seq<char>>, seen: Set<Seq<char>>) -> bool {
    forall|d: Seq<char>| #[trigger] seen.contains(d) <==> exists|f: Seq<char>| v.contains(f) && #[trigger] field_of(e, f, d)
}

// [C14.8]
pub proof fn lemma_pairs_init<V>(e: DimOf, bufs: Bufs, w: Map<Seq<char>, u64>, all: Seq<(&String, &V)>)
    ensures pairs_inv(e, bufs, w, visited(all, 0), Map::<Seq<char>, (u64, u64)>::empty()),
{
}
