// Prelude of unit `zarrevents` (model I: machine integers, no floats).  Everything the extracted code calls but
// that is not extracted.  EVERY contract below is an ASSUMPTION of this unit.  Ids (DESIGN section 6 / 11.7):
//   A-hashmap      std HashMap<String, V>: `new` is empty, `get` finds the entry stored under the key, `insert`
//                  overwrites it.
//   A-hashmap-iter iterating `&HashMap` yields every (key, value) entry exactly once, IN AN UNSPECIFIED ORDER
//                  (`order()` is uninterpreted: the proofs hold for every permutation).  For the three lifted loop
//                  bodies (R8) the same statement is the dropped scaffold: "every (field, dim) entry of
//                  event_dim_of_stat is visited exactly once, in any order".
//   A-hashset      facade of `std::collections::HashSet<&str>` for the LIFTED bodies of the unfixed code (parameter
//                  `seen`): `insert` returns true iff the string was new.  (`inspect` is verified in place; there the
//                  unfixed code uses the real std HashSet through vstd, whose specification is silent for `&str` keys.)
//   A-std-extra    `Option<&T>::copied` (vstd 0.2026.09.13 has no specification)
//   A-iter         R10.foriter facade of the `for` protocol (same text as unit ndstore)
//   A-nooverflow   `current_chunk * full_at + len` of every statistics buffer fits in u64 (stated precondition; the
//                  same precondition as [C15.total] in unit zarrbuf)
// Proved elsewhere: `SampleBuffer::total_pushed` is also under contract in unit zarrbuf ([C15.total], same formula);
// here the real function is extracted again, so nothing about it is assumed.
use ::std::sync::Arc;

// ---- anyhow facade
#[derive(Debug)]
pub struct AnyhowError { pub code: u64 }
pub type Result<T> = core::result::Result<T, AnyhowError>;

// ---- zarrs facade: `pub type Array = zarrs::array::Array<dyn ...>` (only a field type of ArrayCollection here)
#[verifier::external_body]
pub struct Array { _p: () }

// ---- A-hashmap
pub struct HashMap<K, V> {
    pub m: Ghost<Map<Seq<char>, V>>,
    pub _k: core::marker::PhantomData<K>,
}
impl<V> HashMap<String, V> {
    pub open spec fn view(&self) -> Map<Seq<char>, V> { self.m@ }

    #[verifier::external_body]
    pub fn new() -> (r: Self)
        ensures r@ == Map::<Seq<char>, V>::empty(),
    { unimplemented!() }

    #[verifier::external_body]
    pub fn insert(&mut self, k: String, v: V) -> (r: Option<V>)
        ensures final(self)@ == old(self)@.insert(k@, v),
    { unimplemented!() }

    #[verifier::external_body]
    pub fn get(&self, k: &str) -> (r: Option<&V>)
        ensures
            self@.contains_key(k@) ==> r is Some && *r->Some_0 == self@[k@],
            !self@.contains_key(k@) ==> r is None,
    { unimplemented!() }

    /// A-hashmap-iter: the (unspecified) order in which `&self` is iterated
    pub uninterp spec fn order(&self) -> Seq<(&String, &V)>;
}

// ---- A-hashset (lifted bodies only)
pub struct HashSet<T> {
    pub s: Ghost<Set<Seq<char>>>,
    pub _t: core::marker::PhantomData<T>,
}
impl<'a> HashSet<&'a str> {
    pub open spec fn view(&self) -> Set<Seq<char>> { self.s@ }
    #[verifier::external_body]
    pub fn insert(&mut self, v: &'a str) -> (r: bool)
        ensures r == !old(self)@.contains(v@), final(self)@ == old(self)@.insert(v@),
    { unimplemented!() }
}

// ---- A-std-extra
pub assume_specification<'a, T: Copy> [Option::<&'a T>::copied](o: Option<&'a T>) -> (r: Option<T>)
    ensures r == (match o { Some(x) => Some(*x), None => None::<T> });

// ---- A-iter: the iterator protocol behind `for PAT in EXPR` (R10.foriter), same text as unit ndstore
#[verifier::external_body]
#[verifier::accept_recursive_types(T)]
pub struct VxIt<T> { _p: core::marker::PhantomData<T> }
impl<T> VxIt<T> {
    pub uninterp spec fn all(&self) -> Seq<T>;
    pub uninterp spec fn pos(&self) -> int;

    /// `Iterator::next` would return Some
    #[verifier::external_body]
    pub fn vx_more(&self) -> (r: bool)
        ensures r == (self.pos() < self.all().len()),
    { unimplemented!() }

    /// `Iterator::next().unwrap()`
    #[verifier::external_body]
    pub fn vx_next(&mut self) -> (r: T)
        requires 0 <= old(self).pos() < old(self).all().len(),
        ensures
            final(self).all() == old(self).all(),
            final(self).pos() == old(self).pos() + 1,
            r == old(self).all()[old(self).pos()],
    { unimplemented!() }
}
/// `IntoIterator::into_iter`
pub trait VxIntoIter<T>: Sized {
    spec fn vx_seq(&self) -> Seq<T>;
    fn vx_into(self) -> (r: VxIt<T>)
        ensures r.pos() == 0, r.all() == self.vx_seq();
}
/// A-hashmap-iter: `for (k, v) in &map`
impl<'a, V> VxIntoIter<(&'a String, &'a V)> for &'a HashMap<String, V> {
    open spec fn vx_seq(&self) -> Seq<(&'a String, &'a V)> { self.order() }
    #[verifier::external_body]
    fn vx_into(self) -> (r: VxIt<(&'a String, &'a V)>) { unimplemented!() }
}
/// R10.foriter: `for PAT in EXPR {B}` -> `{ let mut it = vx_iter(EXPR); while it.vx_more() { let PAT = it.vx_next(); B } }`
pub fn vx_iter<T, I: VxIntoIter<T>>(i: I) -> (r: VxIt<T>)
    ensures r.pos() == 0, r.all() == i.vx_seq(),
{ i.vx_into() }

/// A-hashmap-iter, the only fact assumed about `order()`: it enumerates the entries of the map, each once
#[verifier::external_body]
pub proof fn axiom_order_enumerates<V>(m: &HashMap<String, V>)
    ensures enumerates(m.order(), m@),
{}

// ---- the trait implemented by ZarrChainStorage (src/storage/core.rs), as far as `inspect` goes; the per-impl
// contract is supplied by the ghost items spliced into the extracted impl (impl_extra.rs)
pub trait ChainStorage: Sized {
    type Finalized;
    spec fn inspect_pre(&self) -> bool;
    spec fn inspect_post(&self, r: Result<Option<Self::Finalized>>) -> bool;
    fn inspect(&self) -> (r: Result<Option<Self::Finalized>>)
        requires self.inspect_pre()
        ensures self.inspect_post(r);
}
