// =====================================================================================
// Unit zarrflow.  PART 1: vocabulary of unit zarrbuf, property C15 (copied text).
// Spec vocabulary written from the property statement / DESIGN §5 C15, then the history model.
// =====================================================================================

/// One stored element of a buffer, whatever its machine type (float values stay opaque).
pub enum Elem { F64(f64), F32(f32), Bool(bool), I64(i64), U64(u64), Str(String) }
/// The value recorded for one logical entry (one `push`): one element for a scalar item, the
/// whole vector for a vector item.
pub type Row = Seq<Elem>;

/// the machine element types a buffer can hold, embedded into `Elem`
pub trait ZElem: Sized { spec fn elem(self) -> Elem; }
impl ZElem for f64 { open spec fn elem(self) -> Elem { Elem::F64(self) } }
impl ZElem for f32 { open spec fn elem(self) -> Elem { Elem::F32(self) } }
impl ZElem for bool { open spec fn elem(self) -> Elem { Elem::Bool(self) } }
impl ZElem for i64 { open spec fn elem(self) -> Elem { Elem::I64(self) } }
impl ZElem for u64 { open spec fn elem(self) -> Elem { Elem::U64(self) } }
impl ZElem for String { open spec fn elem(self) -> Elem { Elem::Str(self) } }
/// element-wise embedding of a typed vector into `Seq<Elem>`
pub open spec fn wrap<T: ZElem>(s: Seq<T>) -> Seq<Elem> { Seq::new(s.len(), |i: int| s[i].elem()) }

// `wrap` commutes with the three ways the code builds vectors (with_capacity, push, extend); used by
// the exec contracts through `broadcast use group_wrap` so that no proof text refers to a local.
pub broadcast proof fn lemma_wrap_empty<T: ZElem>(s: Seq<T>)
    requires s.len() == 0,
    ensures #[trigger] wrap(s) == Seq::<Elem>::empty(),
{ assert(wrap(s) =~= Seq::<Elem>::empty()); }
pub broadcast proof fn lemma_wrap_push<T: ZElem>(s: Seq<T>, x: T)
    ensures #[trigger] wrap(s.push(x)) == wrap(s) + seq![x.elem()],
{ assert(wrap(s.push(x)) =~= wrap(s) + seq![x.elem()]); }
pub broadcast proof fn lemma_wrap_add<T: ZElem>(a: Seq<T>, b: Seq<T>)
    ensures #[trigger] wrap(a + b) == wrap(a) + wrap(b),
{ assert(wrap(a + b) =~= wrap(a) + wrap(b)); }
pub broadcast group group_wrap { lemma_wrap_empty, lemma_wrap_push, lemma_wrap_add }

/// element type of a buffer (the variant of `SampleBufferValue`), named by the `ItemType` it is created from
pub open spec fn kind(v: SampleBufferValue) -> ItemType {
    match v {
        SampleBufferValue::F64(_) => ItemType::F64,
        SampleBufferValue::F32(_) => ItemType::F32,
        SampleBufferValue::Bool(_) => ItemType::Bool,
        SampleBufferValue::I64(_) => ItemType::I64,
        SampleBufferValue::U64(_) => ItemType::U64,
        SampleBufferValue::String(_) => ItemType::String,
    }
}
/// the stored elements, in storage order.  `(kind, flat)` is the complete abstract value.
pub open spec fn flat(v: SampleBufferValue) -> Seq<Elem> {
    match v {
        SampleBufferValue::F64(x) => wrap(x@),
        SampleBufferValue::F32(x) => wrap(x@),
        SampleBufferValue::Bool(x) => wrap(x@),
        SampleBufferValue::I64(x) => wrap(x@),
        SampleBufferValue::U64(x) => wrap(x@),
        SampleBufferValue::String(x) => wrap(x@),
    }
}

/// the (buffer type, item) pairs `push` accepts; every other pair panics ("Mismatched item type")
pub open spec fn compat(k: ItemType, item: Value) -> bool {
    match (k, item) {
        (ItemType::F64, Value::ScalarF64(_)) | (ItemType::F64, Value::F64(_)) => true,
        (ItemType::F32, Value::ScalarF32(_)) | (ItemType::F32, Value::F32(_)) => true,
        (ItemType::U64, Value::ScalarU64(_)) | (ItemType::U64, Value::U64(_)) => true,
        (ItemType::Bool, Value::ScalarBool(_)) | (ItemType::Bool, Value::Bool(_)) => true,
        (ItemType::I64, Value::ScalarI64(_)) | (ItemType::I64, Value::I64(_)) => true,
        (ItemType::String, Value::ScalarString(_)) => true,
        _ => false,
    }
}
/// the row a pushed item stands for: ROW/ELEMENT RELATION -- a scalar item is a row of one
/// element, a vector item is a row of `v.len()` elements; the buffer stores rows back to back.
pub open spec fn item_row(item: Value) -> Row {
    match item {
        Value::ScalarF64(x) => seq![Elem::F64(x)],
        Value::ScalarF32(x) => seq![Elem::F32(x)],
        Value::ScalarU64(x) => seq![Elem::U64(x)],
        Value::ScalarBool(x) => seq![Elem::Bool(x)],
        Value::ScalarI64(x) => seq![Elem::I64(x)],
        Value::ScalarString(x) => seq![Elem::Str(x)],
        Value::F64(v) => wrap(v@),
        Value::F32(v) => wrap(v@),
        Value::U64(v) => wrap(v@),
        Value::Bool(v) => wrap(v@),
        Value::I64(v) => wrap(v@),
        Value::Strings(v) => wrap(v@),
        Value::DateTime64(_, v) => wrap(v@),
        Value::TimeDelta64(_, v) => wrap(v@),
    }
}

// ---------------------------------------------------------------------------------------
// abstract views of the two data types (every field is represented)
// ---------------------------------------------------------------------------------------
pub struct BufV { pub kind: ItemType, pub flat: Seq<Elem>, pub len: int, pub full_at: int, pub cur: int }
pub struct ChunkV { pub kind: ItemType, pub idx: int, pub len: int, pub full_at: int, pub flat: Seq<Elem> }

pub open spec fn bv(b: SampleBuffer) -> BufV {
    BufV { kind: kind(b.items), flat: flat(b.items), len: b.len as int, full_at: b.full_at as int, cur: b.current_chunk as int }
}
pub open spec fn cv(c: Chunk) -> ChunkV {
    ChunkV { kind: kind(c.values), idx: c.chunk_idx as int, len: c.len as int, full_at: c.full_at as int, flat: flat(c.values) }
}
pub open spec fn ocv(c: Option<Chunk>) -> Option<ChunkV> {
    match c { Some(c) => Some(cv(c)), None => None }
}

/// representation invariant, width-independent part: a buffer never rests full
pub open spec fn wf(b: BufV) -> bool { 0 < b.full_at && 0 <= b.len < b.full_at && 0 <= b.cur }
/// representation invariant for rows of `w` elements: rows(items) == len
pub open spec fn wf_w(b: BufV, w: int) -> bool { wf(b) && 0 <= w && b.flat.len() == b.len * w }
/// i-th row of a back-to-back row store
pub open spec fn row_at(flat: Seq<Elem>, i: int, w: int) -> Row { flat.subrange(i * w, (i + 1) * w) }

// ---------------------------------------------------------------------------------------
// the operations as the property states them (C15 / DESIGN §5 C15)
// ---------------------------------------------------------------------------------------
pub open spec fn empty_next(b: BufV, cur: int) -> BufV { BufV { flat: Seq::<Elem>::empty(), len: 0, cur: cur, ..b } }
pub open spec fn as_chunk(b: BufV) -> ChunkV { ChunkV { kind: b.kind, idx: b.cur, len: b.len, full_at: b.full_at, flat: b.flat } }

/// `finish_chunk`: everything buffered leaves as chunk `current_chunk`; the buffer is empty, on the next chunk
pub open spec fn finish_v(b: BufV) -> (ChunkV, BufV) { (as_chunk(b), empty_next(b, b.cur + 1)) }
/// `push`: either one more row, nothing emitted, or the chunk (idx = current_chunk, len = full_at,
/// values = old ++ item) is emitted, current_chunk + 1, buffer empty
pub open spec fn push_v(b: BufV, row: Row) -> (Option<ChunkV>, BufV) {
    if b.len + 1 == b.full_at {
        (Some(ChunkV { kind: b.kind, idx: b.cur, len: b.full_at, full_at: b.full_at, flat: b.flat + row }), empty_next(b, b.cur + 1))
    } else {
        (None, BufV { flat: b.flat + row, len: b.len + 1, ..b })
    }
}
/// `copy_as_chunk`: pure copy (current_chunk, len, items); nothing for an empty buffer
pub open spec fn copy_v(b: BufV) -> Option<ChunkV> { if b.len == 0 { None } else { Some(as_chunk(b)) } }
/// `reset`: returns the partial chunk (None when empty) and restarts at chunk 0
pub open spec fn reset_v(b: BufV) -> (Option<ChunkV>, BufV) {
    if b.len == 0 { (None, BufV { cur: 0, ..b }) } else { (Some(as_chunk(b)), empty_next(b, 0)) }
}
/// `total_pushed`
pub open spec fn total_v(b: BufV) -> int { b.cur * b.full_at + b.len }
pub open spec fn init_v(k: ItemType, full_at: int) -> BufV { BufV { kind: k, flat: Seq::<Elem>::empty(), len: 0, full_at: full_at, cur: 0 } }

pub open spec fn supported(t: ItemType) -> bool { !(t is DateTime64) && !(t is TimeDelta64) }


// =====================================================================================
// PART 2: meaning of the zarrs write calls, copied from unit zarrbuf (lemmas_zarrs.rs)
/// global row `r` of the array lies in the region chunk `c` addresses: chunk k covers rows [k*full_at, k*full_at + len)
pub open spec fn covers(c: ChunkV, r: int) -> bool { c.idx * c.full_at <= r < c.idx * c.full_at + c.len }

// =====================================================================================
// store_zarr_chunk: the meaning of the zarrs write calls (A-zarrs) in units of the C15 model
// =====================================================================================
pub enum WriteOp {
    /// `array.store_chunk(chunk_indices, data)`
    Chunk { chunk: Seq<u64>, data: Seq<Elem> },
    /// `array.store_chunk_subset(chunk_indices, subset, data)`
    ChunkSubset { chunk: Seq<u64>, start: Seq<u64>, shape: Seq<u64>, data: Seq<Elem> },
    /// `array.store_array_subset(subset, data)`
    ArraySubset { start: Seq<u64>, shape: Seq<u64>, data: Seq<Elem> },
}
/// rows [start, start+len) of chain `chain` receive `data` (row-major: row i is
/// data[i*w, (i+1)*w) with w the product of the extra dimensions)
pub struct Write { pub chain: int, pub start: int, pub len: int, pub data: Seq<Elem> }

pub open spec fn prod_from(s: Seq<u64>, i: int) -> int
    decreases s.len() - i
{
    if i < 0 || i >= s.len() { 1 } else { s[i] as int * prod_from(s, i + 1) }
}

/// an array as `create_arrays` builds it: shape [n_chains, n_draws, extra…],
/// regular chunk grid [1, draw_chunk_size, max(extra, 1)…]
pub open spec fn array_ok(shape: Seq<u64>, grid: Seq<u64>, full_at: int) -> bool {
    &&& shape.len() == grid.len() && shape.len() >= 2
    &&& grid[0] == 1 && grid[1] as int == full_at
    &&& forall|i: int| 2 <= i < shape.len() ==> (#[trigger] grid[i]) as int == (if shape[i] == 0 { 1int } else { shape[i] as int })
}

pub open spec fn zeros_from(s: Seq<u64>, i: int) -> bool { forall|j: int| i <= j < s.len() ==> #[trigger] s[j] == 0 }

/// A-zarrs: which rows of which chain each write call addresses (None: not a whole-row write of one chain)
pub open spec fn write_of(shape: Seq<u64>, grid: Seq<u64>, op: WriteOp) -> Option<Write> {
    match op {
        // chunk [c, k, 0, …, 0] of the grid [1, g, …] is chain c, rows [k*g, (k+1)*g)
        WriteOp::Chunk { chunk, data } =>
            if chunk.len() == grid.len() && zeros_from(chunk, 2) {
                Some(Write { chain: chunk[0] as int, start: chunk[1] * grid[1], len: grid[1] as int, data: data })
            } else { None },
        // subset [0, …, 0] + [1, n, extent of the extra dims…] of that chunk is chain c, rows [k*g, k*g + n)
        WriteOp::ChunkSubset { chunk, start, shape: sh, data } =>
            if chunk.len() == grid.len() && zeros_from(chunk, 2) && start.len() == grid.len() && zeros_from(start, 0)
                && sh.len() == grid.len() && sh[0] == 1 && sh[1] <= grid[1]
                && (forall|i: int| 2 <= i < sh.len() ==> #[trigger] sh[i] == shape[i]) {
                Some(Write { chain: chunk[0] as int, start: chunk[1] * grid[1], len: sh[1] as int, data: data })
            } else { None },
        // array subset start [c, s], shape [1, n] of a rank-2 array is chain c, rows [s, s + n)
        WriteOp::ArraySubset { start, shape: sh, data } =>
            if grid.len() == 2 && start.len() == 2 && sh.len() == 2 && sh[0] == 1 {
                Some(Write { chain: start[0] as int, start: start[1] as int, len: sh[1] as int, data: data })
            } else { None },
    }
}
/// the write chunk `c` of chain `chain` stands for (cf. `covers` / `store_chunk_v`)
pub open spec fn write_for(c: ChunkV, chain: int) -> Write {
    Write { chain: chain, start: c.idx * c.full_at, len: c.len, data: c.flat }
}

pub proof fn lemma_prod_suffix(a: Seq<u64>, b: Seq<u64>, i: int)
    requires a.len() == b.len(), 0 <= i, forall|j: int| i <= j < a.len() ==> a[j] == b[j],
    ensures prod_from(a, i) == prod_from(b, i),
    decreases a.len() - i,
{
    if i < a.len() { lemma_prod_suffix(a, b, i + 1); }
}
// shape of the partial-chunk subset: `shape[0] = 1; shape[1] = len` (in either order) on a copy of
// the array shape.  Two general facts, used through `broadcast use group_prod`.
pub broadcast proof fn lemma_prod_unfold2(s: Seq<u64>)
    requires s.len() >= 2,
    ensures #[trigger] prod_from(s, 0) == s[0] as int * (s[1] as int * prod_from(s, 2)),
{
    assert(prod_from(s, 1) == s[1] as int * prod_from(s, 2));
    assert(prod_from(s, 0) == s[0] as int * prod_from(s, 1));
}
pub broadcast proof fn lemma_prod_update_below(base: Seq<u64>, i: int, x: u64, j: int)
    requires 0 <= i < j, i < base.len(),
    ensures #[trigger] prod_from(base.update(i, x), j) == prod_from(base, j),
{
    lemma_prod_suffix(base.update(i, x), base, j);
}
/// the two orders in which `shape[0] = a; shape[1] = b` can be written, in one step
pub broadcast proof fn lemma_prod_upd01(base: Seq<u64>, a: u64, b: u64)
    requires base.len() >= 2,
    ensures #[trigger] prod_from(base.update(0, a).update(1, b), 0) == a as int * (b as int * prod_from(base, 2)),
{
    let s = base.update(0, a).update(1, b);
    lemma_prod_suffix(s, base, 2);
    lemma_prod_unfold2(s);
}
pub broadcast proof fn lemma_prod_upd10(base: Seq<u64>, a: u64, b: u64)
    requires base.len() >= 2,
    ensures #[trigger] prod_from(base.update(1, b).update(0, a), 0) == a as int * (b as int * prod_from(base, 2)),
{
    let s = base.update(1, b).update(0, a);
    lemma_prod_suffix(s, base, 2);
    lemma_prod_unfold2(s);
}
pub broadcast group group_prod { lemma_prod_unfold2, lemma_prod_update_below, lemma_prod_upd01, lemma_prod_upd10 }

// [C15] the write `store_zarr_chunk` is allowed to make for chunk `c` addresses exactly the rows
// `covers(c, ·)` of the history model, i.e. its effect under A-zarrs is `store_chunk_v`.
pub proof fn lemma_write_for_covers(c: ChunkV, chain: int, r: int)
    ensures covers(c, r) <==> write_for(c, chain).start <= r < write_for(c, chain).start + write_for(c, chain).len,
            write_for(c, chain).data == c.flat,
{
}

// =====================================================================================
// PART 3 (new in unit zarrflow): WHICH array a chunk goes to.  C14: "every backend returns exactly what the chains
// recorded ... warmup before sampling draws"; C15: "flushed Zarr traces are complete".
// The Zarr backends keep four maps of arrays: (warmup | sample) x (draw | param).  A value recorded for variable
// `name` during warmup must end in the WARMUP array of `name` of its group, a value recorded after warmup in the
// SAMPLE array, always in the row block of the recording chain.
// =====================================================================================
pub enum Phase { Warmup, Sample }
/// Draw: posterior / warmup_posterior (draw_buffers); Param: sample_stats / warmup_sample_stats (stats_buffers)
pub enum Group { Draw, Param }
/// ghost identity of an array: which map of the ArrayCollection, which key
pub struct ArrId { pub phase: Phase, pub group: Group, pub key: Seq<char> }

pub open spec fn phase_of(is_warmup: bool) -> Phase { if is_warmup { Phase::Warmup } else { Phase::Sample } }

pub open spec fn arr_map(ac: ArrayCollection, p: Phase, g: Group) -> Map<Seq<char>, Array> {
    match (p, g) {
        (Phase::Warmup, Group::Draw) => ac.warmup_draw_arrays@,
        (Phase::Sample, Group::Draw) => ac.sample_draw_arrays@,
        (Phase::Warmup, Group::Param) => ac.warmup_param_arrays@,
        (Phase::Sample, Group::Param) => ac.sample_param_arrays@,
    }
}
/// A-array-id: the identity of every array of the collection is the place where it is stored
pub open spec fn coll_ok(ac: ArrayCollection) -> bool {
    &&& forall|k: Seq<char>| ac.warmup_draw_arrays@.contains_key(k) ==> (#[trigger] ac.warmup_draw_arrays@[k]).id() == (ArrId { phase: Phase::Warmup, group: Group::Draw, key: k })
    &&& forall|k: Seq<char>| ac.sample_draw_arrays@.contains_key(k) ==> (#[trigger] ac.sample_draw_arrays@[k]).id() == (ArrId { phase: Phase::Sample, group: Group::Draw, key: k })
    &&& forall|k: Seq<char>| ac.warmup_param_arrays@.contains_key(k) ==> (#[trigger] ac.warmup_param_arrays@[k]).id() == (ArrId { phase: Phase::Warmup, group: Group::Param, key: k })
    &&& forall|k: Seq<char>| ac.sample_param_arrays@.contains_key(k) ==> (#[trigger] ac.sample_param_arrays@[k]).id() == (ArrId { phase: Phase::Sample, group: Group::Param, key: k })
}
/// both arrays of variable `k` of group `g` exist (`create_arrays` is called with the same type list for the warmup
/// and the sample group; `&self.arrays.x[key]` panics otherwise)
pub open spec fn both_exist(ac: ArrayCollection, g: Group, k: Seq<char>) -> bool {
    arr_map(ac, Phase::Warmup, g).contains_key(k) && arr_map(ac, Phase::Sample, g).contains_key(k)
}

/// [C14.grant] THE write the caller allows: chunk `c` of chain `chain` into the array with identity `id`, i.e. rows
/// [c.idx*c.full_at, c.idx*c.full_at + c.len) of chain `chain` of THAT array receive c.flat (`write_for`, unit zarrbuf).
/// Every zarrs write call requires `expects(op)`; a function whose contract grants nothing else can write nowhere else:
/// not into another array (other phase, other group, other key), not for another chain, not to other rows.
pub open spec fn grants(id: ArrId, c: ChunkV, chain: int) -> bool {
    forall|a: Array, op: WriteOp| a.id() == id && write_of(a.shape_v(), a.grid_v(), op) == Some(write_for(c, chain))
        ==> #[trigger] a.expects(op)
}
/// helper preconditions of store_zarr_chunk / store_zarr_chunk_async for chunk `c` and array `a` (from the code: the
/// `assert!`s, `u64` arithmetic, string arrays are rank 2), same text as the contract of store_zarr_chunk in unit zarrbuf
pub open spec fn fits(a: Array, c: ChunkV) -> bool {
    &&& array_ok(a.shape_v(), a.grid_v(), c.full_at)
    &&& 0 < c.len <= c.full_at
    &&& c.flat.len() == c.len * prod_from(a.shape_v(), 2)
    &&& (c.kind is String ==> a.shape_v().len() == 2)
    &&& c.idx * c.full_at <= u64::MAX
}
/// the chunk fits the warmup AND the sample array of its variable (both are created with the same extra dimensions and
/// the same chunk size), so that a write into the wrong one is rejected for the right reason: it is not granted
pub open spec fn fits_both(ac: ArrayCollection, g: Group, k: Seq<char>, c: ChunkV) -> bool {
    both_exist(ac, g, k) && fits(arr_map(ac, Phase::Warmup, g)[k], c) && fits(arr_map(ac, Phase::Sample, g)[k], c)
}

/// `["draw", "chain"].contains(&name)`: these two statistics are not stored (same text as unit hashmap)
pub open spec fn skipped(name: Seq<char>) -> bool { name == "draw"@ || name == "chain"@ }

/// [C14.route] preconditions of push_param / push_draw on the buffer map `bufs` of group `g`
pub open spec fn push_pre(bufs: Map<Seq<char>, SampleBuffer>, ac: ArrayCollection, g: Group, name: Seq<char>, value: Value, is_warmup: bool, chain: int) -> bool {
    &&& coll_ok(ac)
    &&& !skipped(name) ==> {
        // `panic!("Unknown param name")` / `panic!("Unknown posterior variable name")`
        &&& bufs.contains_key(name)
        // SampleBuffer::push (unit zarrbuf): representation invariant, matching item type, machine integers
        &&& wf(bv(bufs[name])) && compat(kind(bufs[name].items), value) && bufs[name].current_chunk < usize::MAX
        // if this push completes a chunk: both arrays of the variable exist and fit, and the ONLY write granted is
        // that chunk into the array of the phase `is_warmup` says
        &&& push_v(bv(bufs[name]), item_row(value)).0 is Some ==> {
            let c = push_v(bv(bufs[name]), item_row(value)).0->Some_0;
            fits_both(ac, g, name, c) && grants(ArrId { phase: phase_of(is_warmup), group: g, key: name }, c, chain)
        }
    }
}
/// [C14.route] effect of push_param / push_draw on the buffer map: the value goes to the buffer of its name, every
/// other buffer is untouched
pub open spec fn push_post(old_bufs: Map<Seq<char>, SampleBuffer>, new_bufs: Map<Seq<char>, SampleBuffer>, name: Seq<char>, value: Value) -> bool {
    if skipped(name) { new_bufs == old_bufs } else {
        &&& new_bufs.contains_key(name)
        &&& new_bufs == old_bufs.insert(name, new_bufs[name])
        &&& bv(new_bufs[name]) == push_v(bv(old_bufs[name]), item_row(value)).1
    }
}

/// [C14.sw] preconditions of one iteration of a reset loop (record_sample at the warmup -> sampling switch, finalize):
/// buffer `b` of variable `k` of group `g`; `p` is the phase that ENDS (the array the left-over chunk belongs to)
pub open spec fn reset_pre(ac: ArrayCollection, g: Group, k: Seq<char>, b: SampleBuffer, p: Phase, chain: int) -> bool {
    &&& coll_ok(ac)
    &&& wf(bv(b))
    // machine integers: finish_chunk's `current_chunk += 1` inside reset
    &&& b.len > 0 ==> b.current_chunk < usize::MAX
    // a left-over chunk exists: both arrays exist and fit; the ONLY write granted is the left-over chunk into the
    // array of phase `p` of THIS key and group, for THIS chain
    &&& b.len > 0 ==> fits_both(ac, g, k, as_chunk(bv(b))) && grants(ArrId { phase: p, group: g, key: k }, as_chunk(bv(b)), chain)
}

/// `SampleBuffer::total_pushed` in mathematical integers (same formula as [C15.total] of unit zarrbuf / zarrevents)
pub open spec fn total_of(b: SampleBuffer) -> int {
    b.current_chunk as int * b.full_at as int + b.len as int
}
/// [C14.sw] preconditions of the whole switch block of record_sample (then-branch of `if is_first_draw`): `reset_pre`
/// for EVERY draw buffer and EVERY stats buffer, the phase that ends is warmup
pub open spec fn switch_pre(s: ZarrChainStorage) -> bool {
    // A-nooverflow (unit zarrevents): total_pushed of every statistics buffer fits in u64
    &&& forall|f: Seq<char>| s.stats_buffers@.contains_key(f) ==> total_of(#[trigger] s.stats_buffers@[f]) <= u64::MAX
    &&& forall|e: (Seq<char>, SampleBuffer)| #[trigger] has_entry(s.draw_buffers@, e) ==> reset_pre(*s.arrays, Group::Draw, e.0, e.1, Phase::Warmup, s.chain as int)
    &&& forall|e: (Seq<char>, SampleBuffer)| #[trigger] has_entry(s.stats_buffers@, e) ==> reset_pre(*s.arrays, Group::Param, e.0, e.1, Phase::Warmup, s.chain as int)
}
