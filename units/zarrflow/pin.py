#!/usr/bin/env python3
"""pin.py <unit> [repo]   write units/<unit>/baseline_I.json exactly as `./check <id> --pin` would (vx/judge.py):
obligations discharged, relative line of every text anchor, closure signatures, loop/closure shape.
Used until the unit is registered in props.json (then `./check C14 --pin` does the same).  `repo` defaults to
/repo; for a unit whose obligation FAILS on the pinned tree because of an open finding, pin on the scratch
worktree that carries the candidate fix (the anchor lines are identical: the fix does not add or remove lines)."""
import json, os, sys
VERIF = os.path.dirname(os.path.dirname(os.path.dirname(os.path.abspath(__file__))))
sys.path.insert(0, VERIF)
unit = sys.argv[1] if len(sys.argv) > 1 else "zarrflow"
repo = sys.argv[2] if len(sys.argv) > 2 else "/repo"
from vx import core
_priv = os.environ.get("ZF_EXTRACT", "/tmp/zf_vx/target/release/vx-extract")  # until the extractor patches of this directory are integrated
if os.path.exists(_priv):
    core.EXTRACT = _priv
g = core.build(unit, "I", repo=repo, tag="_pin")
r = core.run_verus(g.path)
os.remove(g.path)
assert not r.fatal, r.fatal
obs = core.match_rows(g, r)
names = sorted({ob["name"] for ob in obs if ob["kind"] in ("fn", "lemma") and ob["success"]})
shape = {fn["key"]: [fn.get("closures_without_contract", 0), fn.get("loops", 0)] for fn in g.fns}
out = os.path.join(VERIF, "units", unit, "baseline_I.json")
json.dump({"obligations": names, "anchor_lines": g.anchor_lines, "closure_sigs": g.closure_sigs, "loop_sigs": g.loop_sigs, "shape": shape, "locals": {fn["key"]: fn.get("locals", []) for fn in g.fns}}, open(out, "w"), indent=1)
print("pinned", len(names), "obligations ->", out, "| failed:", sorted({ob["name"] for ob in obs if not ob["success"]}))
