// Prelude of unit `zarrflow` (model I).  Everything the extracted code calls but that is not extracted.  EVERY contract
// below is an ASSUMPTION of this unit.  Ids (DESIGN section 6 / 11.7):
//   A-mem-replace, A-vec-extend, A-anyhow, A-iter, A-zarrs   same text as unit zarrbuf (copied, not included)
//   A-zarrs-async   `async_store_chunk / async_store_chunk_subset / async_store_array_subset` (zarrs, feature async), once
//                   awaited, address the same region as `store_chunk / store_chunk_subset / store_array_subset`: same
//                   facade contract (requires `expects(op)` for the same `WriteOp`)
//   A-deasync       R16.deasync: `store_zarr_chunk_async` is checked as its sequential text (every awaited call completes
//                   before the next statement).  Dropped: laziness of the future, suspension / interleaving with other
//                   tasks at the await points, cancellation.  Kept: all statements, calls, arguments, arithmetic, `?`.
//   A-array-id      every array has a ghost identity `id()` = (phase, group, key); `coll_ok` says that the identity of an
//                   array of the ArrayCollection is the place where it is stored (a labelling, established by
//                   `new_trace` / `create_arrays`, which build one array per (group path, variable) - not extracted)
//   A-hashmap       std HashMap<String, V>: `get_mut(name)` returns the entry stored under `name` and writes through it,
//                   `map[name]` is that entry and panics when absent (same text as unit hashmap); for the four lifted loop
//                   bodies the dropped scaffold is "iter_mut() / into_iter() visit every (key, buffer) entry exactly once"
//   A-slice-contains  `<[T]>::contains` (same text as unit hashmap)
//   The sync `Array` (zarrs Array over a sync store) and the async `Array` (Arc of a zarrs Array over an async store) are
//   ONE facade type here: the Arc is elided, the facade offers both the sync and the async write calls.
use vstd::std_specs::cmp::PartialEqSpec;
use vstd::std_specs::core::IndexSpecImpl;
use ::std::sync::Arc;

use std::mem::replace;

// ---- A-mem-replace: `std::mem::replace(dest, src)` returns the old `*dest` and stores `src`.
pub assume_specification<T> [std::mem::replace] (dest: &mut T, src: T) -> (r: T)
    ensures r == *old(dest), *final(dest) == src;

// ---- A-vec-extend (same stub text as unit hashmap): `Vec<T>::extend(Vec<T>)` appends the elements of the argument, in order.
// vstd has no specification for `<Vec<T, A> as Extend<T>>::extend` and one cannot be given from
// here (`A: Allocator` needs a crate-level feature gate), so rule R9.method renames the five
// calls `vec.extend(v)` in `SampleBuffer::push` to `vec.vx_extend(v)`; the stub's body is the
// original call.
pub trait VxExtend<T>: Sized {
    spec fn vx_view(&self) -> Seq<T>;
    fn vx_extend(&mut self, v: Vec<T>)
        ensures final(self).vx_view() == old(self).vx_view() + v@;
}
impl<T> VxExtend<T> for Vec<T> {
    open spec fn vx_view(&self) -> Seq<T> { self@ }
    #[verifier::external_body]
    fn vx_extend(&mut self, v: Vec<T>) { self.extend(v) }
}

// Façade of the `zarrs` / `anyhow` / `std::iter` API used by `store_zarr_chunk` (sync_impl.rs).
// Nothing behind the zarrs API is verified.  What IS verified: every write call made by
// `store_zarr_chunk` addresses exactly the region the chunk stands for.  `&Array` is immutable
// (zarrs writes through interior mutability), so a ghost `written` field cannot be updated by the
// stubs; instead each write stub REQUIRES `array.expects(op)` and the contract of
// `store_zarr_chunk` grants `expects` only for operations whose A-zarrs meaning (`write_of`,
// lemmas.rs) is the write the chunk stands for.  Every stub below is an assumption (A-zarrs,
// A-iter, A-anyhow); they are weak: no stub promises anything about the outcome of a write.

pub struct ZErr {}
/// anyhow::Error
pub struct AnyErr {}
/// anyhow::Result
pub type Result<T> = core::result::Result<T, AnyErr>;

#[verifier::external_body]
pub fn opaque_string() -> String { unimplemented!() }

// ---- A-anyhow: `.context(..)` keeps Ok/Err and the Ok value
pub trait Context<T>: Sized {
    spec fn ctx_ok(&self) -> Option<T>;
    fn context<C>(self, c: C) -> (r: core::result::Result<T, AnyErr>)
        ensures (r is Ok) == (self.ctx_ok() is Some), r is Ok ==> r->Ok_0 == self.ctx_ok()->Some_0;
    /// `.with_context(|| ..)` (async_impl.rs): same, the message closure is called only on Err
    fn with_context<C, F: FnOnce() -> C>(self, f: F) -> (r: core::result::Result<T, AnyErr>)
        requires f.requires(()),
        ensures (r is Ok) == (self.ctx_ok() is Some), r is Ok ==> r->Ok_0 == self.ctx_ok()->Some_0;
}
impl<T, E> Context<T> for core::result::Result<T, E> {
    open spec fn ctx_ok(&self) -> Option<T> { match *self { Ok(v) => Some(v), Err(_) => None } }
    #[verifier::external_body]
    fn context<C>(self, c: C) -> (r: core::result::Result<T, AnyErr>) { unimplemented!() }
    #[verifier::external_body]
    fn with_context<C, F: FnOnce() -> C>(self, f: F) -> (r: core::result::Result<T, AnyErr>) { unimplemented!() }
}

// ---- A-iter: the four std iterator adapters used to build the chunk index vector, on a façade
// iterator whose view is a finite prefix `fin` followed, if `rep` is Some(x), by x forever.
#[verifier::external_body]
#[verifier::reject_recursive_types(T)]
pub struct It<T> { _p: core::marker::PhantomData<T> }
impl<T> It<T> {
    pub uninterp spec fn fin(&self) -> Seq<T>;
    pub uninterp spec fn rep(&self) -> Option<T>;
    #[verifier::external_body]
    pub fn chain(self, o: It<T>) -> (r: It<T>)
        requires self.rep() is None,
        ensures r.fin() == self.fin() + o.fin(), r.rep() == o.rep(),
    { unimplemented!() }
    #[verifier::external_body]
    pub fn cycle(self) -> (r: It<T>)
        requires self.rep() is None, self.fin().len() == 1,
        ensures r.fin() == Seq::<T>::empty(), r.rep() == Some(self.fin()[0]),
    { unimplemented!() }
    #[verifier::external_body]
    pub fn take(self, n: usize) -> (r: It<T>)
        requires self.fin().len() == 0, self.rep() is Some,
        ensures r.fin() == Seq::new(n as nat, |i: int| self.rep()->Some_0), r.rep() is None,
    { unimplemented!() }
    #[verifier::external_body]
    pub fn collect(self) -> (r: Vec<T>)
        requires self.rep() is None,
        ensures r@ == self.fin(),
    { unimplemented!() }
}
/// std::iter::once
#[verifier::external_body]
pub fn once<T>(x: T) -> (r: It<T>)
    ensures r.fin() == seq![x], r.rep() is None,
{ unimplemented!() }

// ---- A-zarrs: the array façade
/// `array.shape()`: the real function returns `&[u64]`; the façade type only offers `.iter().cloned()`
#[verifier::external_body]
pub struct Shape { _p: () }
#[verifier::external_body]
pub struct ShapeIter { _p: () }
impl Shape {
    pub uninterp spec fn dims(&self) -> Seq<u64>;
    #[verifier::external_body]
    pub fn iter(&self) -> (r: ShapeIter) ensures r.dims() == self.dims() { unimplemented!() }
}
impl ShapeIter {
    pub uninterp spec fn dims(&self) -> Seq<u64>;
    #[verifier::external_body]
    pub fn cloned(self) -> (r: It<u64>) ensures r.fin() == self.dims(), r.rep() is None { unimplemented!() }
}
#[verifier::external_body]
pub struct ChunkGrid { _p: () }
impl ChunkGrid {
    pub uninterp spec fn rank(&self) -> int;
    #[verifier::external_body]
    pub fn dimensionality(&self) -> (r: usize) ensures r as int == self.rank() { unimplemented!() }
}

pub struct ArraySubset { pub start: Vec<u64>, pub shape: Vec<u64> }
impl ArraySubset {
    #[verifier::external_body]
    pub fn new_with_start_shape(start: Vec<u64>, shape: Vec<u64>) -> (r: core::result::Result<ArraySubset, ZErr>)
        ensures r is Ok ==> r->Ok_0.start@ == start@ && r->Ok_0.shape@ == shape@ && start@.len() == shape@.len(),
    { unimplemented!() }
    #[verifier::external_body]
    pub fn new_with_shape(shape: Vec<u64>) -> (r: ArraySubset)
        ensures r.shape@ == shape@, r.start@ == Seq::new(shape@.len(), |i: int| 0u64),
    { unimplemented!() }
    /// zarrs: `usize::try_from(self.num_elements()).unwrap()`
    #[verifier::external_body]
    pub fn num_elements_usize(&self) -> (r: usize)
        requires prod_from(self.shape@, 0) <= usize::MAX,
        ensures r as int == prod_from(self.shape@, 0),
    { unimplemented!() }
}

#[verifier::external_body]
pub struct Array { _p: () }
impl Array {
    /// array shape / regular chunk shape, as created by `create_arrays`
    pub uninterp spec fn shape_v(&self) -> Seq<u64>;
    pub uninterp spec fn grid_v(&self) -> Seq<u64>;
    /// the write operations the caller allows (see header)
    pub uninterp spec fn expects(&self, op: WriteOp) -> bool;
    /// A-array-id: which map of the ArrayCollection (warmup / sample, draw / param) and which key this array is
    pub uninterp spec fn id(&self) -> ArrId;

    #[verifier::external_body]
    pub fn chunk_grid(&self) -> (r: &ChunkGrid) ensures r.rank() == self.grid_v().len() { unimplemented!() }
    #[verifier::external_body]
    pub fn shape(&self) -> (r: &Shape) ensures r.dims() == self.shape_v() { unimplemented!() }
    #[verifier::external_body]
    pub fn path(&self) -> (r: &str) { unimplemented!() }

    #[verifier::external_body]
    pub fn store_chunk<T: ZElem>(&self, chunk_indices: &[u64], chunk_data: &Vec<T>) -> (r: core::result::Result<(), ZErr>)
        requires self.expects(WriteOp::Chunk { chunk: chunk_indices@, data: wrap(chunk_data@) }),
    { unimplemented!() }
    #[verifier::external_body]
    pub fn store_chunk_subset<T: ZElem>(&self, chunk_indices: &[u64], chunk_subset: &ArraySubset, data: &Vec<T>) -> (r: core::result::Result<(), ZErr>)
        requires self.expects(WriteOp::ChunkSubset { chunk: chunk_indices@, start: chunk_subset.start@, shape: chunk_subset.shape@, data: wrap(data@) }),
    { unimplemented!() }
    #[verifier::external_body]
    pub fn store_array_subset<T: ZElem>(&self, subset: &ArraySubset, data: &Vec<T>) -> (r: core::result::Result<(), ZErr>)
        requires self.expects(WriteOp::ArraySubset { start: subset.start@, shape: subset.shape@, data: wrap(data@) }),
    { unimplemented!() }
    // ---- A-zarrs-async: the awaited async write calls (R16.deasync), same contracts
    #[verifier::external_body]
    pub fn async_store_chunk<T: ZElem>(&self, chunk_indices: &[u64], chunk_data: &Vec<T>) -> (r: core::result::Result<(), ZErr>)
        requires self.expects(WriteOp::Chunk { chunk: chunk_indices@, data: wrap(chunk_data@) }),
    { unimplemented!() }
    #[verifier::external_body]
    pub fn async_store_chunk_subset<T: ZElem>(&self, chunk_indices: &[u64], chunk_subset: &ArraySubset, data: &Vec<T>) -> (r: core::result::Result<(), ZErr>)
        requires self.expects(WriteOp::ChunkSubset { chunk: chunk_indices@, start: chunk_subset.start@, shape: chunk_subset.shape@, data: wrap(data@) }),
    { unimplemented!() }
    #[verifier::external_body]
    pub fn async_store_array_subset<T: ZElem>(&self, subset: &ArraySubset, data: &Vec<T>) -> (r: core::result::Result<(), ZErr>)
        requires self.expects(WriteOp::ArraySubset { start: subset.start@, shape: subset.shape@, data: wrap(data@) }),
    { unimplemented!() }
}

// ---- A-hashmap (same text as unit hashmap, plus `Index<&str>`)
pub struct HashMap<K, V> {
    pub m: Ghost<Map<Seq<char>, V>>,
    pub _k: core::marker::PhantomData<K>,
}
impl<V> HashMap<String, V> {
    pub open spec fn view(&self) -> Map<Seq<char>, V> { self.m@ }

    #[verifier::external_body]
    pub fn get_mut(&mut self, k: &str) -> (r: Option<&mut V>)
        ensures
            old(self)@.contains_key(k@) ==> r is Some && *r->Some_0 == old(self)@[k@]
                && final(self)@ == old(self)@.insert(k@, *final(r->Some_0)),
            !old(self)@.contains_key(k@) ==> r is None && final(self)@ == old(self)@,
    { unimplemented!() }
}
// `&map[&key]` / `&map[key]` with key: &String
impl<V> core::ops::Index<&String> for HashMap<String, V> {
    type Output = V;
    #[verifier::external_body]
    fn index(&self, k: &String) -> (r: &V)
        ensures *r == self@[k@]
    { unimplemented!() }
}
impl<V> IndexSpecImpl<&String> for HashMap<String, V> {
    /// std: `Index::index` panics when the key is absent
    open spec fn index_req(&self, k: &&String) -> bool { self@.contains_key(k@) }
}
// `&map[name]` with name: &str
impl<V> core::ops::Index<&str> for HashMap<String, V> {
    type Output = V;
    #[verifier::external_body]
    fn index(&self, k: &str) -> (r: &V)
        ensures *r == self@[k@]
    { unimplemented!() }
}
impl<V> IndexSpecImpl<&str> for HashMap<String, V> {
    open spec fn index_req(&self, k: &&str) -> bool { self@.contains_key(k@) }
}

// ---- A-slice-contains (same text as unit hashmap)
pub assume_specification<T: PartialEq> [<[T]>::contains](s: &[T], x: &T) -> (r: bool)
    ensures T::obeys_eq_spec() ==> r == exists|i: int| 0 <= i < s@.len() && (#[trigger] s@[i]).eq_spec(x);

// ---- facades needed only by the in-place block `rs_switch_block` (then-branch of `if is_first_draw`, R8.iflift + R10.foriter)
impl<V> HashMap<String, V> {
    #[verifier::external_body]
    pub fn insert(&mut self, k: String, v: V) -> (r: Option<V>)
        ensures final(self)@ == old(self)@.insert(k@, v),
    { unimplemented!() }
    #[verifier::external_body]
    pub fn get(&self, k: &str) -> (r: Option<&V>)
        ensures
            self@.contains_key(k@) ==> r is Some && *r->Some_0 == self@[k@],
            !self@.contains_key(k@) ==> r is None,
    { unimplemented!() }
    /// A-hashmap-iter: `iter_mut()` hands out every entry (key, current value) once, in an unspecified order; what the
    /// map holds afterwards is left unspecified here (the block's contract does not need it)
    #[verifier::external_body]
    pub fn iter_mut(&mut self) -> (r: IterMut<'_, V>)
        ensures r.pos() == 0, forall|i: int| 0 <= i < r.all().len() ==> has_entry(old(self)@, #[trigger] r.all()[i]),
    { unimplemented!() }
}
pub open spec fn has_entry<V>(m: Map<Seq<char>, V>, e: (Seq<char>, V)) -> bool { m.contains_key(e.0) && m[e.0] == e.1 }

#[verifier::external_body]
#[verifier::reject_recursive_types(V)]
pub struct IterMut<'a, V> { _p: core::marker::PhantomData<&'a mut V> }
impl<'a, V> IterMut<'a, V> {
    pub uninterp spec fn all(&self) -> Seq<(Seq<char>, V)>;
    pub uninterp spec fn pos(&self) -> int;
    #[verifier::external_body]
    pub fn vx_more(&self) -> (r: bool)
        ensures r == (self.pos() < self.all().len()),
    { unimplemented!() }
    #[verifier::external_body]
    pub fn vx_next(&mut self) -> (r: (&'a String, &'a mut V))
        requires 0 <= old(self).pos() < old(self).all().len(),
        ensures
            final(self).all() == old(self).all(), final(self).pos() == old(self).pos() + 1,
            r.0@ == old(self).all()[old(self).pos()].0, *r.1 == old(self).all()[old(self).pos()].1,
    { unimplemented!() }
}
/// iterator over `&HashMap<String, V>` (R10.foriter): only its length matters here
#[verifier::external_body]
#[verifier::reject_recursive_types(V)]
pub struct MapIt<'a, V> { _p: core::marker::PhantomData<&'a V> }
impl<'a, V> MapIt<'a, V> {
    pub uninterp spec fn len(&self) -> int;
    pub uninterp spec fn pos(&self) -> int;
    #[verifier::external_body]
    pub fn vx_more(&self) -> (r: bool)
        ensures r == (self.pos() < self.len()),
    { unimplemented!() }
    #[verifier::external_body]
    pub fn vx_next(&mut self) -> (r: (&'a String, &'a V))
        requires 0 <= old(self).pos() < old(self).len(),
        ensures final(self).len() == old(self).len(), final(self).pos() == old(self).pos() + 1,
    { unimplemented!() }
}
/// R10.foriter: `for PAT in EXPR {B}` -> `{ let mut it = vx_iter(EXPR); while it.vx_more() { let PAT = it.vx_next(); B } }`
pub trait VxIntoIter: Sized {
    type It;
    spec fn vx_rel(self, it: Self::It) -> bool;
    fn vx_into(self) -> (r: Self::It) ensures self.vx_rel(r);
}
impl<'a, V> VxIntoIter for IterMut<'a, V> {
    type It = IterMut<'a, V>;
    open spec fn vx_rel(self, it: IterMut<'a, V>) -> bool { it == self }
    fn vx_into(self) -> (r: IterMut<'a, V>) { self }
}
impl<'a, V> VxIntoIter for &'a HashMap<String, V> {
    type It = MapIt<'a, V>;
    open spec fn vx_rel(self, it: MapIt<'a, V>) -> bool { it.pos() == 0 && it.len() >= 0 }
    #[verifier::external_body]
    fn vx_into(self) -> (r: MapIt<'a, V>) { unimplemented!() }
}
pub fn vx_iter<I: VxIntoIter>(i: I) -> (r: I::It)
    ensures i.vx_rel(r),
{ i.vx_into() }

// ---- A-std-extra (same text as unit zarrevents): `Option<&T>::copied`
pub assume_specification<'a, T: Copy> [Option::<&'a T>::copied](o: Option<&'a T>) -> (r: Option<T>)
    ensures r == (match o { Some(x) => Some(*x), None => None::<T> });
