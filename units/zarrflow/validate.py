#!/usr/bin/env python3
"""validate.py [<unit> <patch-file-or-> <edits.json>]   (dev validation helper, copy of units/zarrevents/validate.py; defaults: zarrflow - validation_edits.json)
Uses the PRIVATE extractor $ZF_EXTRACT (default /tmp/zf_vx/target/release/vx-extract: rules R16.deasync + R8.looplift.tail) when it exists,
i.e. until extractor_deasync.patch / extractor_lifttail.patch of this directory are integrated into tools/vx-extract.


Same idea as tools/mutest.py (edit keys: name, file, old, new, expect, count = expected number of occurrences of old, nth = replace only that occurrence), but on a PATCHED scratch worktree (the unit must be green to start with):
  1. git worktree of /repo HEAD, `git apply <patch>` (the candidate fix of the finding)
  2. baseline run (must verify), one `ensures false` / `assert(false)` vacuity mutant per contract
  3. for every edit {name, file, old, new, expect: "fail"|"pass"}: apply it alone, run the unit, compare.
Nothing is written outside /tmp and /verif/build; the worktree is removed at the end.
"""
import json, os, subprocess, sys, tempfile
VERIF = os.path.dirname(os.path.dirname(os.path.dirname(os.path.abspath(__file__))))
sys.path.insert(0, VERIF)
HERE = os.path.dirname(os.path.abspath(__file__))
unit, patch, edits_file = (sys.argv[1:4] if len(sys.argv) >= 4 else ("zarrflow", "-", os.path.join(HERE, "validation_edits.json")))
model = "I"
wt = "/tmp/zf1"  # scratch worktree of /repo HEAD, removed at the end
assert not os.path.exists(wt), wt + " exists"
subprocess.run(["git", "-C", "/repo", "worktree", "add", "-q", wt, "HEAD"], check=True)
rows = []
try:
    if patch != "-":
        subprocess.run(["git", "-C", wt, "apply", os.path.abspath(patch)], check=True)
    os.environ["VERIF_REPO"] = wt
    from vx import core
    core.REPO = wt
    _priv = os.environ.get("ZF_EXTRACT", "/tmp/zf_vx/target/release/vx-extract")
    if os.path.exists(_priv):
        core.EXTRACT = _priv

    def run(tag, mutate_false=None):
        try:
            g = core.build(unit, model, repo=wt, mutate_false=mutate_false, tag="_val%d%s" % (os.getpid(), tag))
        except core.UnitError as e:
            return "undecided", ["UNIT ERROR: " + str(e)[:300]]
        r = core.run_verus(g.path)
        os.remove(g.path)
        if r.fatal:
            return "undecided", ["verus fatal: " + r.fatal[:600]]
        fails = core.attribute(g, r)
        if fails:
            # as in vx/judge.py only a DEFINITE verifier message counts as a failure (rlimit / timeout = undecided)
            definite = [f for f in fails if f["kind"] == "definite"]
            msgs = sorted({"%s: %s %s" % (f["name"], f["message"], f.get("clause_tags") or "") for f in fails})
            return ("fail" if definite else "undecided"), msgs
        return "pass", ["verified %s" % r.summary.get("verified")]

    st, info = run("b")
    rows.append(("baseline (patched tree)", "pass", st, info))
    cfg = core.load_unit(unit)
    contracts = {}
    for vs in cfg["models"][model]["vspec"]:
        contracts.update(core.parse_vspec(os.path.join(cfg["_dir"], vs)))
    for k in contracts:
        st, info = run("v", mutate_false=k)
        rows.append(("vacuity: `ensures false` on " + k, "fail", st, info))
    for e in json.load(open(edits_file)):
        p = os.path.join(wt, e["file"])
        s = open(p).read()
        n = s.count(e["old"])
        if n != e.get("count", 1):
            rows.append((e["name"], e["expect"], "undecided", ["old text occurs %d times" % n]))
            continue
        if "nth" in e:  # replace only the nth (0-based) occurrence
            parts = s.split(e["old"])
            k = e["nth"] + 1
            t = e["old"].join(parts[:k]) + e["new"] + e["old"].join(parts[k:])
        else:
            t = s.replace(e["old"], e["new"])
        open(p, "w").write(t)
        st, info = run("e")
        rows.append((e["name"], e["expect"], st, info))
        open(p, "w").write(s)
finally:
    subprocess.run(["git", "-C", "/repo", "worktree", "remove", "--force", wt])
bad = 0
for name, exp, got, info in rows:
    ok = "OK " if exp == got else "BAD"
    bad += exp != got
    print("%s %-70s expect=%-4s got=%-9s %s" % (ok, name, exp, got, "; ".join(info)[:400]))
sys.exit(1 if bad else 0)
