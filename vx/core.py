"""vx core: unit assembly (extract + contracts + prelude + lemmas), Verus runs, verdict parsing.

Everything here is engine E1 of DESIGN.md: Verus on functions extracted mechanically
from /repo on every run.
"""
import hashlib
import json
import os
import re
import subprocess
import time
from concurrent.futures import ThreadPoolExecutor

VERIF = os.path.dirname(os.path.dirname(os.path.abspath(__file__)))
REPO = os.environ.get("VERIF_REPO", "/repo")
EXTRACT = os.path.join(VERIF, "tools", "vx-extract", "target", "release", "vx-extract")
# VERIF_OUT redirects build/evidence/replay output of a scratch run (seed regression) away from /verif
OUT = os.environ.get("VERIF_OUT") or VERIF
BUILD = os.path.join(OUT, "build")

SECTION_RE = re.compile(
    r'^(ret|requires|ensures|decreases|returns|prefix|suffix|loop\s+\d+\s+end|loop\s+\d+|before\s+".*"(?:@\d+/\d+)?|after\s+".*"(?:@\d+/\d+)?|replace\s+".*")\s*:\s*(.*)$'
)
TAG_RE = re.compile(r"\[([A-Z]\d\d(?:\.\w+)?(?:\s+[A-Z]\d\d(?:\.\w+)?)*)\]")


class UnitError(Exception):
    """Raised for anchor loss / unsupported constructs: always exit 2, never an alarm."""


def _strip_trailing(text):
    """Remove the trailing comma of a clause list, also when it is followed by a // comment."""
    lines = text.rstrip().split("\n")
    for i in range(len(lines) - 1, -1, -1):
        ln = lines[i]
        code, sep, com = ln.partition("//")
        if not code.strip():
            continue
        c = code.rstrip()
        while c.endswith(","):
            c = c[:-1].rstrip()
        lines[i] = c + ((" " + sep + com) if sep else "")
        break
    return "\n".join(lines)


def _with_comma(text):
    """clause list text with exactly one trailing comma (placed before a trailing comment)."""
    lines = _strip_trailing(text).split("\n")
    for i in range(len(lines) - 1, -1, -1):
        code, sep, com = lines[i].partition("//")
        if not code.strip():
            continue
        lines[i] = code.rstrip() + "," + ((" " + sep + com) if sep else "")
        break
    return "\n".join(lines)


def parse_vspec(path):
    """Parse a .vspec file into {key: contract}."""
    out = {}
    cur = None
    sec = None
    buf = []

    def flush():
        nonlocal sec, buf
        if cur is None or sec is None:
            buf = []
            return
        text = "\n".join(buf).rstrip()
        c = out[cur]
        if sec == "ret":
            c["ret"] = text.strip()
        elif sec in ("requires", "ensures", "decreases", "returns", "prefix", "suffix"):
            c[sec] = (c.get(sec, "") + "\n" + text) if c.get(sec) else text
        elif sec.startswith("loop") and sec.endswith("end"):
            c.setdefault("loop_ends", {})[str(int(sec.split()[1]))] = text
        elif sec.startswith("loop"):
            c.setdefault("loops", {})[str(int(sec.split()[1]))] = text
        else:
            m = re.match(r'^(before|after|replace)\s+"(.*)"(?:@(\d+)/(\d+))?$', sec)
            ins = {"pos": m.group(1), "anchor": m.group(2), "text": text}
            if m.group(3) is not None:
                ins["occurrence"] = int(m.group(3))
                ins["of"] = int(m.group(4))
            c.setdefault("inserts", []).append(ins)
        buf = []

    def _lines(pth):
        with open(pth) as f:
            for raw in f:
                m = re.match(r"^@include\s+(\S+)", raw)
                if m:
                    yield from _lines(os.path.normpath(os.path.join(os.path.dirname(pth), m.group(1))))
                else:
                    yield raw

    if True:
        for raw in _lines(path):
            line = raw.rstrip("\n")
            if line.startswith("## fn "):
                flush()
                rest = line[len("## fn "):].strip()
                tags = []
                m = TAG_RE.search(rest)
                if m:
                    tags = m.group(1).split()
                    rest = rest[: m.start()].strip()
                cur = rest
                if cur in out:
                    raise UnitError(f"{path}: duplicate contract for {cur}")
                out[cur] = {"tags": tags}
                sec = None
                continue
            if line.startswith("#!"):  # comment line in vspec
                continue
            m = SECTION_RE.match(line)
            if m and cur is not None:
                flush()
                sec = re.sub(r"\s+", " ", m.group(1))
                buf = [m.group(2)] if m.group(2).strip() else []
                continue
            buf.append(line)
    flush()
    return out


def contract_to_request(c, mutate_false=False):
    """Turn a parsed contract into the extractor's request form."""
    req = {}
    parts = []
    if c.get("requires", "").strip():
        parts.append("    requires\n" + _with_comma(c["requires"]))
    ens = c.get("ensures", "")
    if mutate_false:
        ens = (_with_comma(ens) + "\n        false") if ens.strip() else "        false"
    if ens.strip():
        parts.append("    ensures\n" + _with_comma(ens))
    if c.get("returns", "").strip():
        parts.append("    returns\n" + _with_comma(c["returns"]))
    if c.get("decreases", "").strip():
        parts.append("    decreases\n" + _with_comma(c["decreases"]))
    if parts:
        req["spec"] = "\n".join(parts)
    if c.get("ret"):
        req["ret"] = c["ret"]
    if c.get("loops"):
        req["loops"] = c["loops"]
    if c.get("inserts"):
        req["inserts"] = c["inserts"]
    if c.get("loop_ends"):
        req["loop_ends"] = c["loop_ends"]
    if c.get("prefix"):
        req["body_prefix"] = c["prefix"]
    if c.get("suffix"):
        req["body_suffix"] = c["suffix"]
    return req


def count_clauses(text):
    """Count top-level comma separated clauses (rough: commas at bracket depth 0)."""
    if not text or not text.strip():
        return 0
    # strip comments
    t = re.sub(r"//.*", "", text)
    depth = 0
    n = 0
    has = False
    for ch in t:
        if ch in "([{":
            depth += 1
        elif ch in ")]}":
            depth -= 1
        elif ch == "," and depth == 0:
            if has:
                n += 1
            has = False
            continue
        if not ch.isspace():
            has = True
    if has:
        n += 1
    return n


def _read_with_includes(path, seen=None):
    seen = seen or set()
    out = []
    base = os.path.dirname(path)
    with open(path) as f:
        for line in f:
            m = re.match(r"^\s*//@include\s+(\S+)", line)
            if m:
                p = os.path.normpath(os.path.join(base, m.group(1)))
                if p in seen:
                    continue
                seen.add(p)
                out.append(f"// ---- include {os.path.relpath(p, VERIF)}\n")
                out.append(_read_with_includes(p, seen))
                out.append(f"// ---- end include {os.path.relpath(p, VERIF)}\n")
            else:
                out.append(line)
    return "".join(out)


class Gen:
    """A generated Verus file plus the metadata needed to judge it."""

    def __init__(self):
        self.path = None
        self.unit = None
        self.model = None
        self.text = ""
        self.fns = []  # dicts: key, file, start_line, end_line, gen_start, gen_end, sha256, tags, has_contract
        self.lemmas = []  # dicts: name, gen_start, gen_end, tags
        self.rewrites = {}
        self.linemap = []  # per generated line: (file, srcline) or None
        self.contracts = {}
        self.assumption_scan = []
        self.dropped = []
        self.anchor_lines = {}
        self.closure_sigs = {}
        self.loop_sigs = {}
        self.locals = {}
        self.renamed_fns = []
        self.dropped_items = []
        self.hint_dropped_fns = []
        self.fuzzy_fns = []
        self.dropped_hint_keys = {}


def load_unit(unit):
    udir = os.path.join(VERIF, "units", unit)
    with open(os.path.join(udir, "unit.json")) as f:
        cfg = json.load(f)
    cfg["_dir"] = udir
    return cfg


PROOF_FN_RE = re.compile(
    r"^\s*(?:pub\s+)?(?:broadcast\s+)?proof\s+fn\s+(\w+)", re.M
)


def build(unit, model, repo=None, mutate_false=None, tag="", drop_hints=(), force_drop=None):
    """Assemble build/<unit>@<model><tag>.rs from the current working tree of `repo`."""
    repo = repo or REPO
    cfg = load_unit(unit)
    udir = cfg["_dir"]
    mcfg = cfg["models"][model]
    contracts = {}
    for vs in mcfg.get("vspec", []):
        part = parse_vspec(os.path.join(udir, vs))
        for k, v in part.items():
            if k in contracts:
                raise UnitError(f"duplicate contract {k}")
            contracts[k] = v
    req_contracts = {}
    # pinned relative lines of anchors (recorded by --pin) help to re-find an edited anchored statement
    pinned_anchor_lines = {}
    bpath = os.path.join(udir, f"baseline_{model}.json")
    if os.path.exists(bpath):
        try:
            with open(bpath) as bf:
                pinned_anchor_lines = json.load(bf).get("anchor_lines", {})
        except Exception:
            pinned_anchor_lines = {}
    trait_impl_fns = set(cfg.get("trait_impl_fns", []))
    for k, c in contracts.items():
        if mutate_false == k and k in trait_impl_fns:
            # Verus rejects `ensures` on trait-impl methods: the vacuity mutant asserts false at entry
            c = dict(c)
            c["prefix"] = "proof { assert(false); }\n" + c.get("prefix", "")
            req_contracts[k] = contract_to_request(c, False)
        else:
            req_contracts[k] = contract_to_request(c, mutate_false == k)
    # stale hints (vx/judge.py): the proof hints of these functions no longer compile against the edited body
    # (e.g. they name a local that was renamed); contracts and loop invariants stay, the hints are dropped
    for k in drop_hints:
        if k in req_contracts:
            for part in ("inserts", "loop_ends", "body_prefix", "body_suffix"):
                req_contracts[k].pop(part, None)
    for k, rc in req_contracts.items():
        for ins in rc.get("inserts", []):
            ins["droppable"] = True
            key = f"{ins['pos']}|{ins['anchor']}|{ins.get('occurrence', 0)}"
            hl = pinned_anchor_lines.get(k, {}).get(key)
            if hl is not None:
                ins["hint_line"] = hl
    rules = dict(cfg.get("rules", {}))
    rules.update(mcfg.get("rules", {}))
    if os.path.exists(bpath):
        try:
            with open(bpath) as bf:
                _bd = json.load(bf)
                rules["pinned_closure_sigs"] = _bd.get("closure_sigs", {})
                rules["pinned_loop_sigs"] = _bd.get("loop_sigs", {})
                rules["pinned_locals"] = _bd.get("locals", {})
        except Exception:
            pass
    if force_drop:
        rules["force_drop_inserts"] = force_drop
    sources = json.loads(json.dumps(cfg["sources"]))
    for sr in sources:
        for it in sr["items"]:
            if it.get("extra_file"):
                it["extra"] = _read_with_includes(os.path.join(udir, it.pop("extra_file")))
    req = {
        "repo": repo,
        "sources": sources,
        "contracts": req_contracts,
        "rules": rules,
    }
    p = subprocess.run([EXTRACT], input=json.dumps(req), capture_output=True, text=True)
    if p.returncode != 0:
        raise UnitError(f"extractor crashed: {p.stderr[-2000:]}")
    resp = json.loads(p.stdout)
    if not resp["ok"]:
        raise UnitError("extraction failed: " + "; ".join(resp["errors"]))

    g = Gen()
    g.unit, g.model = unit, model
    g.contracts = contracts
    lines = []
    linemap = []

    def emit(text, origin=None):
        for ln in text.split("\n"):
            lines.append(ln)
            linemap.append(origin)

    emit("// GENERATED by vx (unit %s, model %s) from %s -- do not edit" % (unit, model, repo))
    emit("#![allow(unused_imports, unused_variables, dead_code, unused_mut, unused_parens, non_snake_case, unused_assignments, unreachable_code, non_camel_case_types)]")
    emit("use vstd::prelude::*;")
    emit("verus! {")
    for pf in mcfg.get("prelude", []):
        emit("// ==== prelude %s" % pf)
        emit(_read_with_includes(os.path.join(udir, pf)))
    total_rw = {}
    for seg in resp["segments"]:
        emit("// ==== extracted %s :: %s  (lines %d-%d)" % (seg["file"], seg["key"], seg["start_line"], seg["end_line"]))
        base = len(lines)
        seglines = seg["text"].split("\n")
        lm = seg["linemap"]
        for i, ln in enumerate(seglines):
            lines.append(ln)
            src = lm[i] if i < len(lm) else 0
            linemap.append((seg["file"], src) if src else (seg["file"], 0))
        for k, v in seg["rewrites"].items():
            total_rw[k] = total_rw.get(k, 0) + v
        for (fk, akey, rel) in seg.get("anchor_lines", []):
            g.anchor_lines.setdefault(fk, {})[akey] = rel
        for (fk, sigs) in seg.get("closure_sigs", []):
            g.closure_sigs[fk] = sigs
        for (fk, sigs) in seg.get("loop_sigs", []):
            g.loop_sigs[fk] = sigs
        g.renamed_fns += seg.get("renamed_fns", [])
        g.dropped_items += seg.get("dropped_items", [])
        g.hint_dropped_fns += seg.get("hint_dropped_fns", [])
        g.fuzzy_fns += seg.get("fuzzy_fns", [])
        for (fk, ik) in seg.get("dropped_hint_keys", []):
            g.dropped_hint_keys.setdefault(fk, []).append(ik)
        # function ranges in generated coordinates
        for fn in seg["fns"]:
            gs = ge = None
            for i in range(len(seglines)):
                src = lm[i] if i < len(lm) else 0
                if src and fn["start_line"] <= src <= fn["end_line"]:
                    if gs is None:
                        gs = base + i + 1
                    ge = base + i + 1
            c = contracts.get(fn["key"], {})
            g.fns.append({
                "key": fn["key"],
                "file": seg["file"],
                "start_line": fn["start_line"],
                "end_line": fn["end_line"],
                "gen_start": gs,
                "gen_end": ge,
                "sha256": hashlib.sha256(fn["orig"].encode()).hexdigest(),
                "tags": c.get("tags", []),
                "has_contract": fn["has_contract"],
                "in_trait_impl": fn.get("in_trait_impl", False),
                "has_body": fn.get("has_body", True),
                "n_requires": count_clauses(c.get("requires", "")),
                "n_ensures": count_clauses(c.get("ensures", "")),
                "n_loop_contracts": len(c.get("loops", {})),
                "locals": fn.get("locals", []),
                "closures": fn.get("closures", 0),
                "closures_without_contract": fn.get("closures_without_contract", 0),
                "loops": fn.get("loops", 0),
            })
        if not seg["fns"]:
            g.dropped.append(seg["key"])
    for lf in mcfg.get("lemmas", []):
        emit("// ==== lemmas %s" % lf)
        base = len(lines)
        text = _read_with_includes(os.path.join(udir, lf))
        emit(text)
        # find proof fns and their tags (tag comment on the line above or same line)
        tl = text.split("\n")
        for i, ln in enumerate(tl):
            m = PROOF_FN_RE.match(ln)
            if m:
                tags = []
                for j in (i, i - 1, i - 2):
                    if 0 <= j < len(tl):
                        tm = TAG_RE.search(tl[j]) if "//" in tl[j] else None
                        if tm:
                            tags = tm.group(1).split()
                            break
                g.lemmas.append({"name": m.group(1), "gen_start": base + i + 1, "tags": tags})
    emit("} // verus!")
    emit("fn main() {}")
    g.text = "\n".join(lines) + "\n"
    g.linemap = linemap
    g.rewrites = total_rw
    os.makedirs(BUILD, exist_ok=True)
    g.path = os.path.join(BUILD, f"{unit}_{model}{tag}.rs")
    with open(g.path, "w") as f:
        f.write(g.text)
    # assumption scan
    scan = []
    for i, ln in enumerate(lines):
        code = ln.split("//")[0]
        for kw in ("assume(", "admit(", "external_body", "assume_specification", "axiom fn", "uninterp", "external_fn_specification", "#[verifier::external", "accept_recursive_types", "no_unwind"):
            if kw in code:
                scan.append({"line": i + 1, "kind": kw.strip("(#["), "text": ln.strip()[:160]})
                break
    g.assumption_scan = scan
    return g


class VerusResult:
    def __init__(self):
        self.ok = False
        self.rows = []  # function-breakdown rows
        self.diags = []  # error diagnostics: {message, line, lines[], rendered, kind}
        self.summary = {}
        self.wall_s = 0.0
        self.fatal = None  # front-end / internal error text
        self.cmd = ""
        self.smt_ms = 0


def _diag_lines(sp, fname):
    """All (line_start,line_end,is_primary,label) in file `fname` reachable from span sp incl. macro expansions."""
    out = []
    cur = sp
    depth = 0
    while cur is not None and depth < 12:
        if os.path.basename(cur.get("file_name", "")) == fname:
            out.append((cur["line_start"], cur["line_end"], cur.get("is_primary", False), cur.get("label")))
            break
        exp = cur.get("expansion")
        cur = exp.get("span") if exp else None
        depth += 1
    return out


def run_verus(path, rlimit=30, seed=None, extra=None, timeout=400, verify_function=None):
    cmd = ["verus", path, "--output-json", "--time", "--error-format=json", "--multiple-errors", "10", "--rlimit", str(rlimit)]
    if seed is not None:
        cmd += ["--smt-option", f"smt.random_seed={seed}", "--smt-option", f"sat.random_seed={seed}"]
    if verify_function:
        cmd += ["--verify-root", "--verify-function", verify_function]
    if extra:
        cmd += extra
    r = VerusResult()
    r.cmd = " ".join(cmd)
    t0 = time.time()
    import signal
    proc = subprocess.Popen(cmd, stdout=subprocess.PIPE, stderr=subprocess.PIPE, text=True, cwd=os.path.dirname(path), start_new_session=True)
    try:
        out, err = proc.communicate(timeout=timeout)
    except subprocess.TimeoutExpired:
        # kill the whole process group (the z3 child would otherwise survive and keep a core busy)
        try:
            os.killpg(proc.pid, signal.SIGKILL)
        except OSError:
            pass
        proc.communicate()
        r.fatal = f"verus timed out after {timeout}s"
        r.wall_s = time.time() - t0
        return r

    class _P:
        pass
    p = _P()
    p.stdout, p.stderr, p.returncode = out, err, proc.returncode
    r.wall_s = time.time() - t0
    fname = os.path.basename(path)
    try:
        js = json.loads(p.stdout)
    except Exception:
        js = None
    other = []
    for ln in p.stderr.split("\n"):
        if not ln.startswith("{"):
            if ln.strip() and not ln.startswith("[rust_verify"):
                other.append(ln)
            continue
        try:
            d = json.loads(ln)
        except Exception:
            other.append(ln)
            continue
        if d.get("level") not in ("error",):
            continue
        msg = d.get("message", "")
        if msg.startswith("aborting due to"):
            continue
        spans = []
        for sp in d.get("spans", []):
            spans += _diag_lines(sp, fname)
        r.diags.append({"message": msg, "spans": spans, "rendered": d.get("rendered", "")[:3000]})
    if js is None:
        r.fatal = "no JSON from verus: " + "\n".join(other)[-3000:] + "".join(d["rendered"] for d in r.diags)[-3000:]
        return r
    res = js.get("verification-results", {})
    r.summary = res
    tm = js.get("times-ms", {})
    smt = tm.get("smt", {})
    r.smt_ms = smt.get("smt-run", 0)
    for mt in smt.get("smt-run-module-times", []):
        for row in mt.get("function-breakdown", []):
            r.rows.append(row)
    if res.get("encountered-vir-error") or (res.get("encountered-error") and not r.rows and res.get("verified", 0) == 0 and res.get("errors", 0) == 0):
        r.fatal = "verus front-end error: " + "".join(d["rendered"] for d in r.diags)[-4000:] + "\n".join(other)[-2000:]
    r.ok = bool(res.get("success"))
    return r


def stale_hint_fns(g, r):
    """Front-end error: keys of the extracted functions that have an error diagnostic on a generated line which
    does not come from /repo (= spliced ghost text) inside their span."""
    out = set()
    for d in r.diags:
        for sp in d.get("spans", []):
            ln = sp[0] if isinstance(sp, (list, tuple)) else None
            if not ln:
                continue
            src = g.linemap[ln - 1] if ln - 1 < len(g.linemap) else None
            if src and src[1]:
                continue            # the error is on real code
            for fn in g.fns:
                if fn.get("gen_start") and fn.get("gen_end") and fn["gen_start"] <= ln <= fn["gen_end"]:
                    out.add(fn["key"])
    return out


DEFINITE = (
    "postcondition not satisfied",
    "precondition not satisfied",
    "assertion failed",
    "invariant not satisfied",
    "possible arithmetic underflow/overflow",
    "possible division by zero",
    "decreases not satisfied",
    "could not prove termination",
    "recommendation not met",
    "possible bit shift underflow/overflow",
    "loop invariant",
    "index out of bounds",
    "unreachable",
)
INDEFINITE = ("resource limit", "rlimit", "timed out", "while loop: Resource", "canceled")


def classify(msg):
    m = msg.lower()
    for k in INDEFINITE:
        if k.lower() in m:
            return "indefinite"
    return "definite"


def attribute(g, r):
    """Map diagnostics to extracted functions / lemmas. Returns list of failures:
    {fn or lemma, kind(definite|indefinite), message, gen_line, src(file,line), clause_tags, rendered}
    """
    fails = []
    glines = g.text.split("\n")

    def owner(line):
        for fn in g.fns:
            if fn["gen_start"] and fn["gen_start"] <= line <= fn["gen_end"]:
                return ("fn", fn)
        best = None
        for lm in g.lemmas:
            if lm["gen_start"] <= line:
                if best is None or lm["gen_start"] > best["gen_start"]:
                    best = lm
        # lemma region only if line is after the last extracted fn
        last_fn_end = max([fn["gen_end"] or 0 for fn in g.fns] + [0])
        if best is not None and line > last_fn_end:
            return ("lemma", best)
        return ("prelude", None)

    for d in r.diags:
        spans = d["spans"]
        if not spans:
            fails.append({"owner": "unknown", "name": "?", "kind": classify(d["message"]), "message": d["message"], "rendered": d["rendered"], "tags": [], "clause_tags": []})
            continue
        # the owner is determined by any span that falls into a function
        own = None
        gen_line = None
        # the primary span decides (call site for preconditions, clause for postconditions);
        # fall back to any span that lies inside an extracted function or lemma
        for (ls, le, prim, label) in sorted(spans, key=lambda x: not x[2]):
            o = owner(ls)
            if o[0] != "prelude":
                own = o
                gen_line = ls
                break
        if own is None:
            own = ("prelude", None)
            gen_line = spans[0][0]
        # clause tags: any span line (within contract lines) carrying a [Cxx.y] tag comment
        ctags = []
        for (ls, le, prim, label) in spans:
            # a tag narrows the attribution only when it sits on the FIRST or LAST line of the failing clause
            # (tags on inner lines of a multi-line clause describe sub-parts of it)
            for ln in sorted({ls, le}):
                if 1 <= ln <= len(glines) and "//" in glines[ln - 1]:
                    tm = TAG_RE.search(glines[ln - 1].split("//", 1)[1])
                    if tm:
                        for t in tm.group(1).split():
                            if t not in ctags:
                                ctags.append(t)
        src = g.linemap[gen_line - 1] if gen_line and gen_line - 1 < len(g.linemap) else None
        name = own[1]["key"] if own[0] == "fn" else (own[1]["name"] if own[0] == "lemma" else "prelude")
        tags = own[1]["tags"] if own[1] else []
        fails.append({
            "owner": own[0], "name": name, "kind": classify(d["message"]), "message": d["message"],
            "gen_line": gen_line, "src": src, "tags": tags, "clause_tags": ctags,
            "rendered": d["rendered"],
        })
    return fails


def match_rows(g, r):
    """Associate function-breakdown rows with extracted fns / lemmas by name (last path segment).
    Returns list of obligations: {name, kind(fn|lemma|prelude), success, time_us, rlimit, tags}."""
    obs = []
    fn_by_last = {}
    for fn in g.fns:
        fn_by_last.setdefault(fn["key"].split("::")[-1], []).append(fn)
    lemma_names = {lm["name"]: lm for lm in g.lemmas}
    for row in r.rows:
        full = row["function"]
        last = full.split("::")[-1]
        ob = {"verus_name": full, "success": row["success"], "time_us": row.get("time-micros", 0), "rlimit": row.get("rlimit", 0), "mode": row.get("mode:", "")}
        if last in lemma_names and row.get("mode:") == "proof":
            ob.update(kind="lemma", name=last, tags=lemma_names[last]["tags"])
        elif last in fn_by_last and row.get("mode:") == "exec":
            cands = fn_by_last[last]
            # disambiguate by type name if it appears in the verus path, else merge tags
            segs = full.split("::")
            pick = [c for c in cands if len(segs) >= 2 and c["key"].split("::")[0].split(" ")[-1] == segs[-2]]
            if len(pick) == 1:
                ob.update(kind="fn", name=pick[0]["key"], tags=pick[0]["tags"])
            elif len(cands) == 1:
                ob.update(kind="fn", name=cands[0]["key"], tags=cands[0]["tags"])
            else:
                tags = sorted({t for c in cands for t in c["tags"]})
                ob.update(kind="fn", name="|".join(c["key"] for c in cands), tags=tags, ambiguous=True)
        else:
            ob.update(kind="prelude", name=full, tags=[])
        obs.append(ob)
    return obs
