"""Decision rule, vacuity guards, evidence, replay (DESIGN §4)."""
import hashlib
import json
import os
import re
import shutil
import subprocess
import time
from concurrent.futures import ThreadPoolExecutor

from . import core

VERIF = core.VERIF
PROPS_FILE = os.path.join(VERIF, "props.json")
KNOWN_FILE = os.path.join(VERIF, "known_findings.json")
EVIDENCE_DIR = os.path.join(core.OUT, "evidence")
REPLAY_DIR = os.path.join(core.OUT, "replays")
ALLOW_FILE = os.path.join(VERIF, "assumptions_allow.json")
NCPU = int(os.environ.get("VERIF_JOBS", "16"))

TRUSTED_BASE = [
    "Verus 0.2026.09.13 (rust_verify, VIR/AIR encoding) and its bundled Z3",
    "rustc 1.98.1 front end used by Verus",
    "vx-extract (syn 2 span-edit extractor) and the rewrite rules R0-R5 of DESIGN 2.2",
    "prelude stubs and their assumed contracts (listed in `assumptions`)",
    "model R: f64 arithmetic treated as exact real arithmetic (A-real)",
]


def load_props():
    with open(PROPS_FILE) as f:
        return json.load(f)


def load_known():
    if not os.path.exists(KNOWN_FILE):
        return []
    with open(KNOWN_FILE) as f:
        return json.load(f).get("findings", [])


def tag_matches(tags, pid):
    return any(t.split(".")[0] == pid for t in tags)


def baseline_path(unit, model):
    return os.path.join(VERIF, "units", unit, f"baseline_{model}.json")


def load_baseline(unit, model):
    p = baseline_path(unit, model)
    if os.path.exists(p):
        with open(p) as f:
            return json.load(f)
    return None


class UnitRun:
    def __init__(self, unit, model):
        self.unit, self.model = unit, model
        self.gen = None
        self.res = None
        self.obs = []
        self.fails = []
        self.error = None
        self.vacuity = []  # (fn key, rejected: bool, detail)
        self.retries = {}


def run_unit(unit, model, seed, rlimit=30):
    u = UnitRun(unit, model)
    try:
        u.gen = core.build(unit, model)
    except core.UnitError as e:
        u.error = f"extraction: {e}"
        return u
    u.res = core.run_verus(u.gen.path, rlimit=rlimit, seed=(seed if seed else None))
    u.stale = set()
    for _ in range(3):
        if not (u.res.fatal and "front-end error" in u.res.fatal):
            break
        # proof hints that no longer compile against an edited body (a renamed local ...): drop the hints of exactly
        # those functions and try again; a proof that goes through with FEWER hints is still a proof
        stale = core.stale_hint_fns(u.gen, u.res) - u.stale
        if not stale:
            break
        u.stale |= stale
        try:
            u.gen = core.build(unit, model, drop_hints=tuple(sorted(u.stale)))
        except core.UnitError as e:
            u.error = f"extraction: {e}"
            return u
        u.gen.rewrites["R1.stalehint"] = len(u.stale)
        u.res = core.run_verus(u.gen.path, rlimit=rlimit, seed=(seed if seed else None))
    if u.res.fatal:
        u.error = "verus: " + u.res.fatal[:3000]
        return u
    u.obs = core.match_rows(u.gen, u.res)
    u.fails = core.attribute(u.gen, u.res)
    return u


def verus_fn_pattern(gen, key):
    return key.split(" for ")[-1]


def vacuity_one(unit, model, key, idx, drop_hints=()):
    """ensures-false variant of one contract-bearing function must be REJECTED by Verus."""
    try:
        g = core.build(unit, model, mutate_false=key, tag=f"_vac{idx}", drop_hints=drop_hints)
    except core.UnitError as e:
        return (key, None, f"extraction: {e}")
    r = core.run_verus(g.path, rlimit=30, verify_function=verus_fn_pattern(g, key), timeout=600)
    try:
        os.remove(g.path)
    except OSError:
        pass
    if r.fatal:
        return (key, None, "verus: " + r.fatal[:500])
    rows = [row for row in r.rows if row.get("mode:") == "exec"]
    if not rows:
        return (key, None, "no obligation generated for the mutated function")
    rejected = any(not row["success"] for row in rows)
    return (key, rejected, "rejected" if rejected else "ACCEPTED ensures false (contradictory requires / axioms?)")


def retry_failed(u, names, seed):
    """Re-run failing functions alone with rlimit x2 (and the default seed): a failure that does not
    reproduce is reported as unstable, not as a violation."""
    out = {}
    for name in names:
        if "|" in name or name in ("prelude", "?"):
            out[name] = False
            continue
        r = core.run_verus(u.gen.path, rlimit=60, verify_function=verus_fn_pattern(u.gen, name), timeout=900)
        if r.fatal:
            out[name] = False
            continue
        rows = [row for row in r.rows]
        out[name] = bool(rows) and all(row["success"] for row in rows)
    return out


def site_text(f, gen):
    """normalised text identifying where an obligation failed (for known-finding matching)."""
    return re.sub(r"\s+", " ", f.get("rendered", ""))


def match_known(known, pid, unit, f):
    for k in known:
        if k.get("status") != "open":
            continue
        if k.get("property") != pid:
            continue
        if k.get("unit") and k["unit"] != unit:
            continue
        if k.get("function") and k["function"] != f["name"]:
            continue
        sc = k.get("site_contains")
        if sc and re.sub(r"\s+", " ", sc) not in site_text(f, None):
            continue
        return k
    return None


def ensure_replay_binary(repo, crate="replay"):
    """Build a native replay driver against `repo` (the real crate). `crate`: "replay" (default features) or
    "replay_store" (features ndarray + zarr). Returns (path, error)."""
    src = os.path.join(VERIF, crate)
    binname = {"replay": "nuts-replay", "replay_store": "nuts-replay-store"}[crate]
    cache = os.environ.get("VERIF_CACHE", "/root/.cache/nuts-verif")
    target = os.path.join(cache, crate.replace("_", "-") + "-target")
    if os.path.realpath(repo) == "/repo":
        work = src
    else:
        h = hashlib.sha1(os.path.realpath(repo).encode()).hexdigest()[:10]
        work = os.path.join(cache, f"{crate}-src-{h}")
        shutil.rmtree(work, ignore_errors=True)
        shutil.copytree(src, work, ignore=shutil.ignore_patterns("target"))
        import atexit
        atexit.register(shutil.rmtree, work, True)
        ct = os.path.join(work, "Cargo.toml")
        with open(ct) as f:
            t = f.read()
        with open(ct, "w") as f:
            f.write(t.replace('path = "/repo', f'path = "{os.path.realpath(repo)}'))
    if not os.path.exists(os.path.join(work, "Cargo.lock")) and os.path.exists("/repo/Cargo.lock"):
        shutil.copy("/repo/Cargo.lock", os.path.join(work, "Cargo.lock"))
    env = dict(os.environ, CARGO_NET_OFFLINE="true", CARGO_TARGET_DIR=target)
    p = subprocess.run(["cargo", "build", "--offline", "--release"], cwd=work, env=env, capture_output=True, text=True)
    if p.returncode != 0:
        return None, p.stderr[-3000:]
    return os.path.join(target, "release", binname), ""


def run_replay_search(cmd_args, seed):
    """Run a native replay driver (real code). `cmd_args[0] == "@store"` selects the replay_store crate.
    Returns (found_failing_input, output)."""
    crate = "replay"
    if cmd_args and cmd_args[0] == "@store":
        crate, cmd_args = "replay_store", cmd_args[1:]
    binp, err = ensure_replay_binary(core.REPO, crate)
    if binp is None:
        return None, "replay driver did not build: " + err
    env = dict(os.environ, VERIF_SEED=str(seed))
    try:
        p = subprocess.run([binp] + cmd_args, capture_output=True, text=True, timeout=900, env=env)
    except subprocess.TimeoutExpired:
        return None, "replay driver timed out"
    out = p.stdout + p.stderr
    if p.returncode == 1 and "REPLAY" in out and "FAIL" in out:
        return True, out
    if p.returncode == 0:
        return False, out
    return None, out


_pinned_trees = {}


def pinned_tree(commit):
    """Export the tree of `commit` (the tree the baseline was pinned on) of the checked repository to a scratch
    directory (once per process); None if that is not possible."""
    if not commit:
        return None
    if commit in _pinned_trees:
        return _pinned_trees[commit]
    dst = None
    try:
        top = subprocess.run(["git", "-C", core.REPO, "rev-parse", "--show-toplevel"], capture_output=True, text=True)
        if top.returncode == 0:
            d = os.path.join("/tmp", f"vx_pinned_{commit[:12]}_{os.getpid()}")
            shutil.rmtree(d, ignore_errors=True)
            os.makedirs(d)
            a = subprocess.Popen(["git", "-C", top.stdout.strip(), "archive", commit], stdout=subprocess.PIPE)
            t = subprocess.run(["tar", "-x", "-C", d], stdin=a.stdout)
            a.wait()
            if a.returncode == 0 and t.returncode == 0:
                dst = d
                import atexit
                atexit.register(shutil.rmtree, d, True)
    except Exception:
        dst = None
    _pinned_trees[commit] = dst
    return dst


def dropped_hints_inessential(u, fname):
    """The hints of function `fname` that lost their anchor on the checked tree: does the PINNED text of the function
    still verify when exactly these hints are left out?  If yes they were not needed for the proof, so their loss
    cannot be the reason of a failure on the checked tree.  Returns (True/False/None, note)."""
    keys = u.gen.dropped_hint_keys.get(fname)
    base = load_baseline(u.unit, u.model) or {}
    tree = pinned_tree(base.get("repo_commit"))
    if not keys or not tree:
        return None, "no pinned tree available"
    try:
        g = core.build(u.unit, u.model, repo=tree, tag=f"_ess{abs(hash(fname)) % 100000}", force_drop={fname: keys})
    except core.UnitError as e:
        return None, f"pinned tree could not be extracted: {e}"
    r = core.run_verus(g.path, rlimit=60, verify_function=verus_fn_pattern(g, fname), timeout=600)
    try:
        os.remove(g.path)
    except OSError:
        pass
    if r.fatal:
        return None, "verus on the pinned text: " + r.fatal[:300]
    rows = [row for row in r.rows if row.get("mode:") == "exec" or True]
    if not rows:
        return None, "no obligation generated on the pinned text"
    ok = all(row["success"] for row in rows)
    return ok, ("the pinned text verifies without the dropped hint(s) " + "; ".join(keys) if ok else "the pinned text needs the dropped hint(s)")


def write_replay(pid, u, f, extra):
    os.makedirs(os.path.join(REPLAY_DIR, pid), exist_ok=True)
    name = re.sub(r"[^A-Za-z0-9_.-]+", "_", f"{u.unit}_{u.model}.{f['name']}")
    path = os.path.join(REPLAY_DIR, pid, name + ".json")
    src = f.get("src")
    doc = {
        "property": pid,
        "engine": "E1 verus",
        "obligation": f"{u.unit}@{u.model}:{f['name']}",
        "kind": f["message"],
        "clause_tags": f.get("clause_tags", []),
        "repo_location": (f"{src[0]}:{src[1]}" if src and src[1] else (src[0] if src else None)),
        "generated_file": u.gen.path if u.gen else None,
        "generated_line": f.get("gen_line"),
        "verifier_output": f.get("rendered", ""),
        "checker_cmd": u.res.cmd if u.res else "",
    }
    doc.update(extra)
    with open(path, "w") as fh:
        json.dump(doc, fh, indent=1)
    return path


def write_evidence(pid, doc):
    os.makedirs(EVIDENCE_DIR, exist_ok=True)
    with open(os.path.join(EVIDENCE_DIR, f"{pid}.json"), "w") as f:
        json.dump(doc, f, indent=1)


def write_undecided(pid, tier, seed, reason, wall):
    write_evidence(pid, {
        "property_id": pid, "tier": tier, "seed": seed, "level": "other",
        "coverage": {"explanation": "UNDECIDED: " + reason[:2000]},
        "wall_s": round(wall, 2), "violations": 0,
    })


def clause_samples(u, pid, n=3):
    out = []
    for fn in u.gen.fns:
        if not tag_matches(fn["tags"], pid) or not fn["has_contract"]:
            continue
        c = u.gen.contracts.get(fn["key"], {})
        out.append({
            "obligation": f"{u.unit}@{u.model}:{fn['key']}",
            "repo_span": f"{fn['file']}:{fn['start_line']}-{fn['end_line']}",
            "requires": (c.get("requires") or "").strip()[:600],
            "ensures": (c.get("ensures") or "").strip()[:900],
        })
        if len(out) >= n:
            break
    return out


def run_property(pid, tier, seed, t0, pin=False):
    props = load_props()
    if pid not in props:
        print(f"UNDECIDED property={pid} reason=not a claimed property (see MANIFEST not_applicable)")
        return 2
    p = props[pid]
    known = load_known()
    units = p.get("units", [])
    # ---- E1: build + verify all units of the property in parallel
    with ThreadPoolExecutor(max_workers=max(1, min(len(units), 6))) as ex:
        runs = list(ex.map(lambda um: run_unit(um["unit"], um["model"], seed), units))
    undecided = []
    for u in runs:
        if u.error:
            undecided.append(f"{u.unit}@{u.model}: {u.error}")
    if undecided:
        msg = "; ".join(undecided)
        # a unit could not even be built / type-checked on this tree (API change mirrored by a facade, lost anchor):
        # the native replay drivers registered for the property are still run against the real code; a failing input
        # found there is a demonstrated violation
        if p.get("replays") and not pin:
            seen_cmds, hit = [], None
            for cmd in p["replays"].values():
                if cmd in seen_cmds:
                    continue
                seen_cmds.append(cmd)
                found, out = run_replay_search(cmd, seed)
                if found:
                    hit = (cmd, out)
                    break
            if hit:
                cmd, out = hit
                os.makedirs(os.path.join(REPLAY_DIR, pid), exist_ok=True)
                path = os.path.join(REPLAY_DIR, pid, "undecided_" + re.sub(r"[^A-Za-z0-9_.-]+", "_", "_".join(cmd)) + ".json")
                with open(path, "w") as fh:
                    json.dump({"property": pid, "engine": "E1 verus (undecided) + native replay driver",
                               "obligation": "not decidable on this tree: " + msg[:1500],
                               "failing_input_found": True, "replay_cmd": ["nuts-replay"] + cmd, "replay_output": out[-4000:]}, fh, indent=1)
                print(f"  verifier undecided ({msg[:200]}), but the native driver {' '.join(cmd)} found a failing input on the real code")
                print(f"VIOLATION property={pid} replay={path}")
                write_evidence(pid, {"property_id": pid, "tier": tier, "seed": seed, "level": "other",
                                     "coverage": {"explanation": "obligations UNDECIDED (" + msg[:1200] + "); violation demonstrated by native driver " + " ".join(cmd)},
                                     "wall_s": round(time.time() - t0, 2), "violations": 1})
                return 1
        print(f"UNDECIDED property={pid} reason={msg[:1500]}")
        write_undecided(pid, tier, seed, msg, time.time() - t0)
        return 2

    obligations = []
    violations = []
    known_hits = []
    unstable = []
    undecided = []
    other_fail = []
    for u in runs:
        base = load_baseline(u.unit, u.model)
        base_obs = set(base["obligations"]) if base else None
        mine = [ob for ob in u.obs if ob["kind"] in ("fn", "lemma") and tag_matches(ob["tags"], pid)]
        # failures attributed to functions/lemmas carrying this property
        my_fails = []
        for f in u.fails:
            tags = f["clause_tags"] if f["clause_tags"] else f["tags"]
            if f["owner"] in ("fn", "lemma") and not tags:
                tags = [pid]      # an extracted function nobody tagged: every property of this unit relies on it
            if f["owner"] in ("fn", "lemma") and tag_matches(tags, pid):
                my_fails.append(f)
            elif f["owner"] in ("prelude", "unknown"):
                undecided.append(f"{u.unit}@{u.model}: failure outside extracted code: {f['message']}")
            else:
                other_fail.append(f"{u.unit}@{u.model}:{f['name']}")
        # rows that failed but produced no attributable diagnostic
        failed_rows = {ob["name"] for ob in mine if not ob["success"]}
        diag_names = {f["name"] for f in my_fails}
        for nm in failed_rows - diag_names:
            parts = nm.split("|")
            if not any(pn in diag_names for pn in parts):
                # a row fails but all its diagnostics carry other properties' clause tags
                pass
        retry_names = sorted({f["name"] for f in my_fails})
        retry = retry_failed(u, retry_names, seed) if retry_names else {}
        u.retries = retry
        for f in my_fails:
            if retry.get(f["name"]):
                unstable.append(f"{u.unit}@{u.model}:{f['name']} ({f['message']})")
                continue
            if f["kind"] == "indefinite":
                undecided.append(f"{u.unit}@{u.model}:{f['name']}: {f['message']}")
                continue
            k = match_known(known, pid, u.unit, f)
            if k:
                known_hits.append((k, u, f))
                continue
            violations.append((u, f, base_obs))
        failing_for_me = {f["name"] for f in my_fails if not retry.get(f["name"])}
        for ob in mine:
            ok = ob["success"] or all(retry.get(n) for n in ob["name"].split("|"))
            if not ok and not any(n in failing_for_me for n in ob["name"].split("|")):
                # the function fails, but every failing clause carries a tag of ANOTHER property: the clauses that
                # carry this property were discharged (Verus reports each failing clause separately)
                ok = True
            obligations.append({
                "obligation": f"{u.unit}@{u.model}:{ob['name']}", "kind": ob["kind"], "discharged": bool(ok),
                "smt_time_ms": round(ob["time_us"] / 1000.0, 1), "rlimit": ob["rlimit"], "back_end": "verus/z3",
            })
    if not obligations and not p.get("kani"):
        undecided.append("vacuity guard: no obligation carries this property")

    # ---- vacuity guard: ensures-false variants must be rejected
    vac = []
    if not undecided:
        jobs = []
        for u in runs:
            for i, fn in enumerate(u.gen.fns):
                if fn["has_contract"] and fn.get("has_body", True) and tag_matches(fn["tags"], pid):
                    jobs.append((u.unit, u.model, fn["key"], i, tuple(sorted(getattr(u, "stale", ())))))
        with ThreadPoolExecutor(max_workers=NCPU) as ex:
            vac = list(ex.map(lambda j: vacuity_one(*j), jobs))
        for key, rejected, detail in vac:
            if rejected is None:
                undecided.append(f"vacuity guard could not run for {key}: {detail}")
            elif not rejected:
                undecided.append(f"vacuity guard tripped for {key}: {detail}")

    # ---- thorough tier: every native replay driver registered for the property is run against the real code as well
    # (drivers search their fault / parameter space for a failing input; a hit is a demonstrated violation)
    native_runs = []
    native_hits = []
    if tier == "thorough" and p.get("replays"):
        seen_cmds = []
        for cmd in p["replays"].values():
            if cmd in seen_cmds:
                continue
            seen_cmds.append(cmd)
            found, out = run_replay_search(cmd, seed)
            native_runs.append({"driver": " ".join(cmd), "failing_input_found": found, "output_tail": out[-600:]})
            if found:
                native_hits.append((cmd, out))
    # ---- thorough tier: two further solver seeds per unit; instability is reported, never an alarm
    seed_runs = []
    if tier == "thorough" and not undecided:
        extra_seeds = [seed + 1, seed + 2]
        jobs = [(um["unit"], um["model"], sd) for um in units for sd in extra_seeds]
        with ThreadPoolExecutor(max_workers=6) as ex:
            more = list(ex.map(lambda j: (j, run_unit(j[0], j[1], j[2])), jobs))
        for (un, mo, sd), u2 in more:
            bad = []
            if u2.error:
                bad = ["run error: " + u2.error[:200]]
            else:
                bad = sorted({f["name"] for f in u2.fails if f["owner"] in ("fn", "lemma")})
            seed_runs.append({"unit": f"{un}@{mo}", "seed": sd, "failing": bad})
            base_fail = {f["name"] for u in runs if u.unit == un and u.model == mo for f in u.fails}
            for b in bad:
                if b not in base_fail:
                    unstable.append(f"{un}@{mo}:{b} fails only under seed {sd}")

    # ---- assumption scan against the committed allow-list
    allow = {}
    if os.path.exists(ALLOW_FILE):
        with open(ALLOW_FILE) as f:
            allow = json.load(f)
    scan_items = []
    for u in runs:
        key = f"{u.unit}@{u.model}"
        items = sorted({re.sub(r"\s+", " ", a["text"]) for a in u.gen.assumption_scan})
        scan_items.append({"unit": key, "count": len(u.gen.assumption_scan), "distinct": len(items)})
        if pin:
            allow[key] = items
        else:
            allowed = set(allow.get(key, []))
            new = [x for x in items if x not in allowed]
            if new and key in allow:
                undecided.append(f"unlisted assumption(s) in {key}: {new[:3]}")
            elif key not in allow:
                undecided.append(f"no assumption allow-list for {key} (run ./check {pid} --pin)")
    if pin:
        with open(ALLOW_FILE, "w") as f:
            json.dump(allow, f, indent=1, sort_keys=True)
        for u in runs:
            names = sorted({ob["name"] for ob in u.obs if ob["kind"] in ("fn", "lemma") and ob["success"]})
            with open(baseline_path(u.unit, u.model), "w") as f:
                try:
                    _st = subprocess.run(["git", "-C", core.REPO, "status", "--porcelain", "--untracked-files=no"], capture_output=True, text=True)
                    _hd = subprocess.run(["git", "-C", core.REPO, "rev-parse", "HEAD"], capture_output=True, text=True)
                    pinned_commit = _hd.stdout.strip() if (_hd.returncode == 0 and _st.returncode == 0 and not _st.stdout.strip()) else None
                except Exception:
                    pinned_commit = None
                shape = {fn["key"]: [fn.get("closures_without_contract", 0), fn.get("loops", 0)] for fn in u.gen.fns}
                json.dump({"obligations": names, "anchor_lines": u.gen.anchor_lines, "closure_sigs": u.gen.closure_sigs, "loop_sigs": u.gen.loop_sigs, "shape": shape, "repo_commit": pinned_commit,
                           "locals": {fn["key"]: fn.get("locals", []) for fn in u.gen.fns if fn.get("has_contract")}}, f, indent=1)
        undecided = [x for x in undecided if "allow-list" not in x]

    # ---- E2 Kani (bounded / complete harnesses)
    bounded = []
    kani_viol = []
    if p.get("kani"):
        from . import kani as kanimod
        kres = kanimod.run_for_property(pid, p["kani"], tier, seed)
        for k in kres:
            if k["status"] == "FAILED":
                kk = None
                for kn in known:
                    if kn.get("status") == "open" and kn.get("property") == pid and kn.get("harness") == k["harness"]:
                        kk = kn
                if kk:
                    known_hits.append((kk, None, {"name": k["harness"], "message": "kani failure", "rendered": k.get("detail", "")}))
                else:
                    kani_viol.append(k)
            elif k["status"] != "SUCCESS":
                undecided.append(f"kani {k['harness']}: {k['status']} {k.get('detail','')[:200]}")
            if k.get("complete") and k["status"] in ("SUCCESS", "FAILED"):
                obligations.append({"obligation": "kani:" + k["harness"], "kind": "kani-complete", "discharged": k["status"] == "SUCCESS",
                                    "smt_time_ms": round(k["time_s"] * 1000), "back_end": "kani/cbmc"})
            else:
                bounded.append({"harness": k["harness"], "bound": k.get("bound"), "result": k["status"], "time_s": k["time_s"], "counted_as_proved": False})

    # ---- decide
    rc = 0
    lines = []
    nviol = 0
    grouped = {}
    for (u, f, base_obs) in violations:
        key = (u.unit, u.model, f["name"])
        if key in grouped:
            g0 = grouped[key][1]
            g0["rendered"] = g0.get("rendered", "") + "\n" + f.get("rendered", "")
            g0["message"] = g0["message"] + "; " + f["message"] if f["message"] not in g0["message"] else g0["message"]
            g0["clause_tags"] = sorted(set(g0.get("clause_tags", []) + f.get("clause_tags", [])))
        else:
            grouped[key] = (u, dict(f), base_obs)
    for (u, f, base_obs) in grouped.values():
        ob_id = f"{u.unit}@{u.model}:{f['name']}"
        was_discharged = base_obs is not None and f["name"] in base_obs
        # (if an anchored statement disappeared, the proof hint attached to it was dropped -- R1.droppedhint; a hint
        # supports the proof of the code around its statement, so its loss with that statement is expected to be harmless
        # for the remaining code; the replay file records the fact so that a reader can discount the report)
        rp = p.get("replays", {}).get(f["name"]) or p.get("replays", {}).get("*")
        found, out = (None, "")
        if rp:
            found, out = run_replay_search(rp, seed)
        if not was_discharged and not found:
            undecided.append(f"{ob_id}: obligation fails but was never discharged on the pinned tree and no failing input was found")
            continue
        # a loop or a non-trivial closure that the pinned tree did not have carries no invariant / contract: the
        # verifier then knows nothing about it and the failure says "needs annotation", not "property broken"
        # (DESIGN 11.3); it counts only together with a failing input on the real code
        hint_note = None
        if f["name"] in set(u.gen.hint_dropped_fns) and not found:
            # a proof hint of this function lost its anchor (the statement it belonged to is gone) and was dropped: the
            # proof may fail for lack of the hint, not because the property is broken - unless the hint was not needed:
            # the pinned text of the function is re-verified WITHOUT exactly these hints
            ok, hint_note = dropped_hints_inessential(u, f["name"])
            if not ok:
                undecided.append(f"{ob_id}: fails after a proof hint lost its anchor and was dropped ({hint_note}), and no failing input was found")
                continue
        if f["name"] in set(u.gen.renamed_fns) and not found:
            undecided.append(f"{ob_id}: fails after its ghost text was adapted to renamed locals (R1.renamedlocal) and no failing input was found")
            continue
        if f["name"] in getattr(u, "stale", set()) and not found:
            undecided.append(f"{ob_id}: fails after its proof hints were dropped as stale (they no longer compile against the edited body) and no failing input was found")
            continue
        base_doc = load_baseline(u.unit, u.model) or {}
        pinned_shape = (base_doc.get("shape") or {}).get(f["name"])
        cur = next((fn for fn in u.gen.fns if fn["key"] == f["name"]), None)
        if pinned_shape and cur and not found:
            more_closures = cur.get("closures_without_contract", 0) > pinned_shape[0]
            more_loops = cur.get("loops", 0) > pinned_shape[1]
            if more_closures or more_loops:
                what = ("closure(s) without contract" if more_closures else "") + (" loop(s) without invariant" if more_loops else "")
                undecided.append(f"{ob_id}: fails, but the function gained {what.strip()} since the pinned tree and no failing input was found (needs annotation)")
                continue
        extra = {"hints_dropped_because_their_anchor_statement_disappeared": int(u.gen.rewrites.get("R1.droppedhint", 0)),
                 "dropped_hints_checked_inessential_on_pinned_text": hint_note,
                 "hints_reattached_by_similarity": int(u.gen.rewrites.get("R1.fuzzyanchor", 0)),
                 "failing_input_found": bool(found), "replay_cmd": (["nuts-replay"] + rp) if rp else None, "replay_output": out[-4000:],
                 "baseline": "discharged on the pinned tree" if was_discharged else "never discharged"}
        path = write_replay(pid, u, f, extra)
        nviol += 1
        lines.append(f"VIOLATION property={pid} replay={path}" + ("" if found else " no-failing-input-found"))
        print(f"  obligation {ob_id} failed: {f['message']} at {f.get('src')}")
        rc = 1
    for k in kani_viol:
        os.makedirs(os.path.join(REPLAY_DIR, pid), exist_ok=True)
        path = os.path.join(REPLAY_DIR, pid, "kani_" + re.sub(r"[^A-Za-z0-9_.-]+", "_", k["harness"]) + ".json")
        with open(path, "w") as fh:
            json.dump({"property": pid, "engine": "E2 kani", "obligation": k["harness"], "verifier_output": k.get("detail", ""),
                       "concrete_values": k.get("concrete"), "native_replay": k.get("native_replay"), "checker_cmd": k.get("cmd")}, fh, indent=1)
        nviol += 1
        lines.append(f"VIOLATION property={pid} replay={path}" + ("" if k.get("concrete") else " no-failing-input-found"))
        rc = 1
    for (cmd, out) in native_hits:
        if any(" ".join(cmd) in ln for ln in lines):
            continue
        os.makedirs(os.path.join(REPLAY_DIR, pid), exist_ok=True)
        path = os.path.join(REPLAY_DIR, pid, "native_" + re.sub(r"[^A-Za-z0-9_.-]+", "_", "_".join(cmd)) + ".json")
        with open(path, "w") as fh:
            json.dump({"property": pid, "engine": "native replay driver (thorough tier)", "obligation": "driver " + " ".join(cmd),
                       "failing_input_found": True, "replay_cmd": ["nuts-replay"] + cmd, "replay_output": out[-4000:]}, fh, indent=1)
        nviol += 1
        rc = 1
        lines.append(f"VIOLATION property={pid} replay={path}")
    for (k, u, f) in known_hits:
        print(f"KNOWN-FINDING: property={pid} {k.get('what','')} [{k.get('id','')}]")
    for ln in lines:
        print(ln)
    if rc == 0 and undecided and p.get("replays") and not pin:
        # The obligations could not be decided (front-end error after an API change, lost anchor, ...). Before giving
        # up, run the native replay drivers registered for this property against the real code: a failing input found
        # there is a demonstrated violation, whatever stopped the verifier (the replay file says so).
        seen_cmds = []
        for cmd in p["replays"].values():
            if cmd in seen_cmds:
                continue
            seen_cmds.append(cmd)
            found, out = run_replay_search(cmd, seed)
            if found:
                os.makedirs(os.path.join(REPLAY_DIR, pid), exist_ok=True)
                path = os.path.join(REPLAY_DIR, pid, "undecided_" + re.sub(r"[^A-Za-z0-9_.-]+", "_", "_".join(cmd)) + ".json")
                with open(path, "w") as fh:
                    json.dump({"property": pid, "engine": "E1 verus (undecided) + native replay driver",
                               "obligation": "not decidable on this tree: " + " | ".join(undecided)[:1500],
                               "failing_input_found": True, "replay_cmd": ["nuts-replay"] + cmd, "replay_output": out[-4000:]}, fh, indent=1)
                nviol += 1
                rc = 1
                print(f"  verifier undecided, but the native driver {' '.join(cmd)} found a failing input on the real code")
                print(f"VIOLATION property={pid} replay={path}")
    if rc == 0 and undecided:
        rc = 2
        print(f"UNDECIDED property={pid} reason=" + " | ".join(undecided)[:2000])
    if unstable:
        print("note: unstable (passed on retry with rlimit x2): " + ", ".join(unstable))

    # ---- evidence
    n_ob = len(obligations)
    n_dis = sum(1 for o in obligations if o["discharged"])
    fns_uc = []
    rewrites = {}
    checker_cmds = []
    smt_ms = 0
    samples = []
    for u in runs:
        checker_cmds.append(u.res.cmd)
        smt_ms += u.res.smt_ms
        for k, v in u.gen.rewrites.items():
            rewrites[k] = rewrites.get(k, 0) + v
        for fn in u.gen.fns:
            if tag_matches(fn["tags"], pid):
                fns_uc.append({"function": fn["key"], "unit": f"{u.unit}@{u.model}", "repo_span": f"{fn['file']}:{fn['start_line']}-{fn['end_line']}",
                               "sha256": fn["sha256"][:16], "requires": fn["n_requires"], "ensures": fn["n_ensures"], "loop_contracts": fn["n_loop_contracts"]})
        samples += clause_samples(u, pid, 2)
    assumptions = list(p.get("assumptions", []))
    for u in runs:
        kinds = {}
        for a in u.gen.assumption_scan:
            kinds[a["kind"]] = kinds.get(a["kind"], 0) + 1
        assumptions.append(f"{u.unit}@{u.model}: scan of generated file found " + ", ".join(f"{v}x {k}" for k, v in sorted(kinds.items())) + " (prelude stubs / model axioms; allow-listed)")
    level = p.get("level", "proof")
    cov = {
        "obligations": n_ob, "discharged": n_dis,
        "checker_cmd": " ; ".join(checker_cmds) + (" ; " + p["kani_cmd_note"] if p.get("kani_cmd_note") else ""),
        "trusted_base": TRUSTED_BASE + p.get("trusted_base_extra", []),
        "samples": samples[:4] if samples else [o for o in obligations[:3]],
        "obligation_table": obligations,
        "functions_under_contract": fns_uc,
        "rewrites": rewrites,
        "dropped_by_extraction": {
            "rule": "items of /repo not selected by a unit are not part of the generated file; within a selected impl / trait the items listed here were removed (R0.dropfn / R0.dropassoc); bodies behind prelude stubs, string formatting arguments and non-doc attributes (R0) are dropped; lifted loop bodies / closures lose their scaffold (R6 / R8); see DESIGN 11.2",
            "removed_items": {f"{u.unit}@{u.model}": sorted(set(u.gen.dropped_items)) for u in runs if u.gen and u.gen.dropped_items},
            "selectors_without_functions": {f"{u.unit}@{u.model}": u.gen.dropped for u in runs if u.gen and u.gen.dropped},
        },
        "vacuity": {"ensures_false_rejected": sum(1 for v in vac if v[1]), "ensures_false_checked": len(vac)},
        "assumption_scan": scan_items,
        "bounded_checks": bounded,
        "solver_time_ms": smt_ms,
        "known_findings_hit": [k.get("id") for (k, _, _) in known_hits],
        "unstable": unstable,
        "seed_runs": seed_runs,
        "native_driver_runs": native_runs,
        "undecided": undecided,
        "failures_carrying_other_properties": sorted(set(other_fail)),
        "not_decided_by_this_check": p.get("not_decided", []),
    }
    if n_ob == 0:
        cov["obligations"] = max(1, n_ob)
        cov["discharged"] = 0 if rc else 1
    if level == "bounded":
        # bounded stand-in (Kani harnesses with a stated bound): never reported at proof level
        level = "other"
        done = [b for b in bounded if b["result"] == "SUCCESS"]
        cov["explanation"] = (f"BOUNDED model checking, not a proof: {len(done)} of {len(bounded)} Kani/CBMC harnesses of this tier verified; each "
                              "harness fixes the size stated in its `bound` and leaves every value symbolic (all bit patterns); see bounded_checks. "
                              "Nothing is claimed beyond the listed bounds.")
        cov["samples"] = [{"harness": b["harness"], "bound": b["bound"], "result": b["result"], "time_s": b["time_s"]} for b in bounded[:4]] or cov["samples"]
        cov["evaluations"] = len(bounded)
        cov["distinct_nontrivial"] = len({b["harness"] for b in done})
        cov["rule"] = "one evaluation = one Kani harness run to completion; distinct = distinct harness names that verified"
    doc = {"property_id": pid, "tier": tier, "seed": seed, "level": level if rc != 2 else "other",
           "coverage": cov, "assumptions": assumptions, "wall_s": round(time.time() - t0, 2), "violations": nviol}
    if rc == 2:
        cov["explanation"] = "UNDECIDED: " + " | ".join(undecided)[:1500] + (" || " + cov["explanation"] if cov.get("explanation") else "")
    write_evidence(pid, doc)
    print(f"property {pid}: {n_dis}/{n_ob} obligations discharged, {len(bounded)} bounded checks, "
          f"vacuity {cov['vacuity']['ensures_false_rejected']}/{cov['vacuity']['ensures_false_checked']}, "
          f"{time.time() - t0:.1f}s, exit {rc}")
    return rc


def replay(pid, path):
    with open(path) as f:
        doc = json.load(f)
    print(json.dumps({k: doc.get(k) for k in ("property", "obligation", "kind", "repo_location", "baseline")}, indent=1))
    print(doc.get("verifier_output", "")[:3000])
    rp = doc.get("replay_cmd")
    if rp:
        found, out = run_replay_search(rp[1:], int(os.environ.get("VERIF_SEED", "0") or 0))
        print(out[-3000:])
        return 1 if found else 0
    print("no executable replay for this obligation (no-failing-input-found)")
    return 1
