"""Engine E2 of DESIGN.md section 3: Kani (cargo kani, offline) on the REAL crate.

Interface used by vx.judge:  run_for_property(pid, specs, tier, seed) -> list[dict]

  specs : list found under props.json[pid]["kani"], each
          {"harness": "math::cpu_math::verif_kani::var_draw_grad_dim1",   # full path => --exact
           "complete": bool, "bound": str, "tiers": ["quick", "thorough"],
           "flags": [...extra cargo-kani flags...], "timeout_s": 600,
           "mem_gb": 16 (optional, RSS cap of the whole process group)}
  result: {"harness", "status": SUCCESS|FAILED|TIMEOUT|ERROR, "complete", "bound", "time_s",
           "detail", "concrete", "native_replay", "cmd"}  (+ "cpu_s", "peak_rss_mb", "failed_checks")

What happens:
  * the CURRENT working tree of the crate (vx.core.REPO, env VERIF_REPO) is copied to a scratch directory
    outside /repo and /verif (env VERIF_SCRATCH, default /var/tmp/nuts-verif-kani.<os pid>; removed at
    exit; `target/` and `.git` are not copied; Cargo.lock is);
  * if the copy does not yet contain the guarded hooks (grep `nuts_rs_verif`), /verif/kani/hooks.patch is
    applied to the COPY (file by file), so the harnesses run against an unhooked /repo as well;
  * every harness registered for the tier runs as its own
        cargo kani -Z function-contracts -Z stubbing -Z unstable-options --ignore-global-asm
                   [--exact] --harness <h> <flags>
    with RUSTFLAGS='--cfg nuts_rs_verif', CARGO_NET_OFFLINE=true and the persistent target directory
    $VERIF_CACHE/kani-target (dependency builds are reused); at most 3 at once (env VERIF_KANI_JOBS);
    the compile phases are serialised across processes (flock in the target directory) and the crate
    sources of the scratch copy are re-stamped before every launch, so cargo never reuses a goto binary
    built from another tree; the harness timeout starts when Kani prints "Checking harness";
  * a watchdog kills the whole process group on timeout or when its RSS exceeds the cap;
  * ERROR / TIMEOUT are never reported as FAILED: compile errors, Kani/CBMC crashes, CBMC timeouts,
    out-of-memory, reachable unsupported constructs and *unwinding-assertion* failures (= the harness
    bound is too small, a harness defect) are ERROR or TIMEOUT; FAILED needs a failed check that is a
    user assertion / panic / safety check of the code under verification;
  * a FAILED harness is re-run with `-Z concrete-playback --concrete-playback=print`; the generated unit
    test and the decoded `kani::any()` values go to "concrete".

CLI (from /verif):  python3 -m vx.kani <property> [--tier quick|thorough] [--only SUBSTR] [--json]
reads the specs from /verif/kani/specs.json (dict property -> list of specs).
"""
import atexit
import fcntl
import json
import os
import re
import shutil
import signal
import struct
import subprocess
import sys
import threading
import time
from concurrent.futures import ThreadPoolExecutor

from . import core

VERIF = core.VERIF
KANI_DIR = os.path.join(VERIF, "kani")
SPECS_FILE = os.path.join(KANI_DIR, "specs.json")
HOOKS_PATCH = os.path.join(KANI_DIR, "hooks.patch")
CACHE = os.environ.get("VERIF_CACHE", "/root/.cache/nuts-verif")
TARGET_DIR = os.path.join(CACHE, "kani-target")
MAX_JOBS = max(1, min(3, int(os.environ.get("VERIF_KANI_JOBS", "3"))))
BASE_ARGS = ["-Z", "function-contracts", "-Z", "stubbing", "-Z", "unstable-options", "--ignore-global-asm"]
RUSTFLAGS = "--cfg nuts_rs_verif"
BUILD_TIMEOUT_S = int(os.environ.get("VERIF_KANI_BUILD_TIMEOUT", "3600"))
DEFAULT_MEM_GB = float(os.environ.get("VERIF_KANI_MEM_GB", "16"))
GUARD = "nuts_rs_verif"
CLK_TCK = os.sysconf("SC_CLK_TCK")
PAGE = os.sysconf("SC_PAGE_SIZE")

_build_lock = threading.Lock()


class _CrossProcessBuildLock:
    """In-process lock + flock on a file in the shared target directory.

    Why it must be cross-process and why sources are touched under it: cargo's fingerprint of a path
    package is mtime-based and workspace-relative, the absolute scratch path is not part of it, and the
    build hash depends on the harness name only.  A scratch copy whose files are OLDER than the last
    build of the same harness (copytree keeps mtimes; an edited tree used for a validation run, then the
    clean tree) is therefore "Fresh" for cargo and the previous goto binary - built from ANOTHER tree -
    would be verified.  Under this lock every launch first stamps the crate sources with the current
    time, so cargo always rebuilds the crate (not the dependencies) from the tree that is being checked,
    and nobody else rebuilds the same harness until CBMC has loaded the goto binary."""

    def __init__(self):
        self._fh = None

    def acquire(self):
        _build_lock.acquire()
        try:
            os.makedirs(TARGET_DIR, exist_ok=True)
            self._fh = open(os.path.join(TARGET_DIR, ".vx-kani-build.lock"), "a+")
            fcntl.flock(self._fh, fcntl.LOCK_EX)
        except BaseException:
            if self._fh:
                self._fh.close()
                self._fh = None
            _build_lock.release()
            raise

    def release(self):
        try:
            if self._fh:
                fcntl.flock(self._fh, fcntl.LOCK_UN)
                self._fh.close()
                self._fh = None
        finally:
            _build_lock.release()


def _touch_sources(crate_dir):
    """Stamp every source of the crate and of its path dependencies with 'now' (see the lock above)."""
    now = time.time()
    for root, dirs, files in os.walk(crate_dir):
        dirs[:] = [d for d in dirs if d not in ("target", ".git")]
        for fn in files:
            if fn.endswith((".rs", ".toml", ".lock")):
                try:
                    os.utime(os.path.join(root, fn), (now, now))
                except OSError:
                    pass
_scratch_lock = threading.Lock()
_scratch = {}  # repo path -> (scratch dir, note) prepared once per process


# ------------------------------------------------------------------------------------------------
# scratch copy + hooks
# ------------------------------------------------------------------------------------------------
def _scratch_root():
    return os.environ.get("VERIF_SCRATCH") or f"/var/tmp/nuts-verif-kani.{os.getpid()}"


def _cleanup(path):
    shutil.rmtree(path, ignore_errors=True)


def _split_patch(text):
    """-> list of (relative path, patch text of that file)."""
    out = []
    cur = None
    for line in text.splitlines(keepends=True):
        if line.startswith("diff --git "):
            m = re.match(r"diff --git a/(\S+) b/(\S+)", line)
            cur = [m.group(2) if m else None, []]
            out.append(cur)
        if cur is not None:
            cur[1].append(line)
    return [(p, "".join(ls)) for p, ls in out if p]


def _apply_hooks(scratch):
    """Apply hooks.patch to the files of the scratch copy that do not carry the guard yet."""
    notes = []
    if not os.path.exists(HOOKS_PATCH):
        return "no hooks.patch"
    with open(HOOKS_PATCH) as f:
        sections = _split_patch(f.read())
    for rel, ptext in sections:
        target = os.path.join(scratch, rel)
        if not os.path.exists(target):
            raise RuntimeError(f"hooks.patch names {rel}, which does not exist in the working tree")
        with open(target) as f:
            present = GUARD in f.read()
        if present:
            notes.append(f"{rel}: hooks present")
            continue
        p = subprocess.run(["patch", "-p1", "--no-backup-if-mismatch", "--fuzz=3"], input=ptext, text=True,
                           cwd=scratch, capture_output=True)
        if p.returncode != 0:
            raise RuntimeError(f"hooks.patch does not apply to {rel}: {(p.stdout + p.stderr)[-600:]}")
        notes.append(f"{rel}: hooks applied from hooks.patch")
    return "; ".join(notes)


def _retarget_paths(scratch):
    """The hook lines name /verif/kani/<m>.rs; if this checkout of the framework lives elsewhere, point
    the scratch copy at it (the working tree itself is never touched)."""
    if os.path.realpath(KANI_DIR) == "/verif/kani":
        return
    for root, _dirs, files in os.walk(os.path.join(scratch, "src")):
        for fn in files:
            if not fn.endswith(".rs"):
                continue
            p = os.path.join(root, fn)
            with open(p) as f:
                t = f.read()
            if '"/verif/kani/' in t:
                with open(p, "w") as f:
                    f.write(t.replace('"/verif/kani/', '"' + KANI_DIR.rstrip("/") + "/"))


def prepare_scratch(repo=None):
    """Copy the working tree (no target/, no .git) to the scratch directory, add the hooks if missing."""
    repo = os.path.realpath(repo or core.REPO)
    with _scratch_lock:
        if repo in _scratch:
            return _scratch[repo]
        root = _scratch_root()
        for forbidden in (repo, os.path.realpath(VERIF)):
            if os.path.realpath(root).startswith(forbidden + os.sep) or os.path.realpath(root) == forbidden:
                raise RuntimeError(f"scratch directory {root} must be outside {forbidden}")
        dst = os.path.join(root, "crate")
        shutil.rmtree(root, ignore_errors=True)
        os.makedirs(root)
        if not os.environ.get("VERIF_KANI_KEEP"):
            atexit.register(_cleanup, root)

        def ignore(d, names):
            return [n for n in names if n in ("target", ".git")]

        shutil.copytree(repo, dst, ignore=ignore, symlinks=True)
        if not os.path.exists(os.path.join(dst, "Cargo.lock")):
            # Cargo.lock is git-ignored in nuts-rs: a scratch worktree of /repo (VERIF_REPO) has none; use /repo's
            fallback = "/repo/Cargo.lock"
            if os.path.exists(fallback):
                shutil.copy(fallback, os.path.join(dst, "Cargo.lock"))
            else:
                raise RuntimeError("the working tree has no Cargo.lock (needed for an offline build)")
        note = _apply_hooks(dst)
        _retarget_paths(dst)
        os.makedirs(TARGET_DIR, exist_ok=True)
        _scratch[repo] = (dst, note)
        return _scratch[repo]


# ------------------------------------------------------------------------------------------------
# running one cargo-kani process under a watchdog
# ------------------------------------------------------------------------------------------------
def _group_usage(pgid, seen_cpu):
    """(rss bytes now, cpu seconds so far) of all processes of the process group."""
    rss = 0
    for d in os.listdir("/proc"):
        if not d.isdigit():
            continue
        try:
            with open(f"/proc/{d}/stat") as f:
                st = f.read()
            rest = st[st.rindex(")") + 2:].split()
            if int(rest[2]) != pgid:  # field 5 = pgrp
                continue
            seen_cpu[d] = (int(rest[11]) + int(rest[12])) / CLK_TCK  # utime + stime
            rss += int(rest[21]) * PAGE
        except (OSError, ValueError, IndexError):
            continue
    return rss, sum(seen_cpu.values())


def _kill_group(pgid):
    for sig in (signal.SIGTERM, signal.SIGKILL):
        try:
            os.killpg(pgid, sig)
        except ProcessLookupError:
            return
        time.sleep(1.0)


def _env():
    env = dict(os.environ)
    env["CARGO_NET_OFFLINE"] = "true"
    env["RUSTFLAGS"] = RUSTFLAGS
    env["CARGO_TARGET_DIR"] = TARGET_DIR
    env.pop("CARGO_ENCODED_RUSTFLAGS", None)
    return env


def _cmd_string(cmd):
    return (f"CARGO_NET_OFFLINE=true RUSTFLAGS='{RUSTFLAGS}' CARGO_TARGET_DIR={TARGET_DIR} "
            + " ".join(cmd) + "   (cwd: scratch copy of the working tree)")


def _run_watched(cmd, cwd, log_path, timeout_s, mem_gb):
    """Run cmd; returns dict(out, rc, why, verify_s, wall_s, cpu_s, peak_rss).  `why` is None, "timeout",
    "build-timeout" or "memory".  The build phase holds the cross-process build lock until CBMC has
    loaded the goto binary ('Starting Bounded Model Checking'); the harness timeout starts at
    'Checking harness'."""
    t0 = time.time()
    lock = _CrossProcessBuildLock()
    lock.acquire()
    have_lock = True
    why = None
    verify_start = None
    seen_cpu = {}
    peak = 0
    cpu = 0.0
    try:
        _touch_sources(cwd)
        with open(log_path, "wb") as log:
            proc = subprocess.Popen(cmd, cwd=cwd, env=_env(), stdout=log, stderr=subprocess.STDOUT,
                                    stdin=subprocess.DEVNULL, start_new_session=True)
            pgid = proc.pid
            t_launch = time.time()
            pos = 0
            while True:
                try:
                    proc.wait(timeout=2.0)
                    break
                except subprocess.TimeoutExpired:
                    pass
                rss, cpu = _group_usage(pgid, seen_cpu)
                peak = max(peak, rss)
                if have_lock:
                    try:
                        with open(log_path, "rb") as rf:
                            rf.seek(pos)
                            chunk = rf.read()
                            pos += max(0, len(chunk) - 64)
                        if verify_start is None and b"Checking harness" in chunk:
                            verify_start = time.time()
                        if b"Starting Bounded Model Checking" in chunk or b"VERIFICATION:-" in chunk:
                            if verify_start is None:
                                verify_start = time.time()
                            lock.release()
                            have_lock = False
                    except OSError:
                        pass
                now = time.time()
                if verify_start is None and now - t_launch > BUILD_TIMEOUT_S:
                    why = "build-timeout"
                elif verify_start is not None and now - verify_start > timeout_s:
                    why = "timeout"
                elif rss > mem_gb * (1 << 30):
                    why = "memory"
                if why:
                    _kill_group(pgid)
                    proc.wait()
                    break
            rc = proc.returncode
            # make sure nothing of the group survives (cbmc children of a killed driver)
            try:
                os.killpg(pgid, signal.SIGKILL)
            except (ProcessLookupError, PermissionError):
                pass
    finally:
        if have_lock:
            lock.release()
    with open(log_path, "r", errors="replace") as f:
        out = f.read()
    t1 = time.time()
    return {"out": out, "rc": rc, "why": why, "wall_s": t1 - t0,
            "verify_s": (t1 - verify_start) if verify_start else 0.0, "cpu_s": cpu, "peak_rss": peak}


# ------------------------------------------------------------------------------------------------
# parsing
# ------------------------------------------------------------------------------------------------
NOISE = re.compile(r"^(Unwinding loop |aborting path on assume|Not unwinding loop |\s*Compiling |\s*Checking [a-z]|warning: unused"
                   r"|Check \d+: |\t - (Status: SUCCESS|Description|Location)|\s*$)")
UNSUPPORTED = re.compile(r"is not currently supported by Kani|unsupported (feature|construct)|"
                         r"call to foreign .* function|Kani does not support", re.I)


def _strip(out):
    return "\n".join(l for l in out.splitlines() if not NOISE.match(l))


def _failed_checks(out):
    """List of (description, location) from the 'Failed Checks:' lines of Kani's regular output."""
    lines = out.splitlines()
    res = []
    for i, l in enumerate(lines):
        if l.startswith("Failed Checks:"):
            desc = l[len("Failed Checks:"):].strip()
            loc = lines[i + 1].strip() if i + 1 < len(lines) and lines[i + 1].lstrip().startswith("File:") else ""
            res.append((desc, loc))
    return res


def classify(r, allow_lib=False):
    """-> (status, reason, failed_checks).  allow_lib (spec "allow_builtin_library_failures"): a run whose ONLY failed
    checks sit inside CBMC's own C library models counts as SUCCESS (every check of the crate and of the harness was
    discharged; CBMC decides all checks, a failing one does not mask the others) - assumption A-cbmc-fma."""
    out = r["out"]
    if r["why"] == "timeout":
        return "TIMEOUT", "harness timeout reached (process group killed)", []
    if r["why"] == "build-timeout":
        return "ERROR", "build phase exceeded its time limit", []
    if r["why"] == "memory":
        return "ERROR", "memory cap reached (process group killed)", []
    nchk = len(re.findall(r"^Checking harness ", out, re.M))
    if nchk == 0:
        if re.search(r"no harnesses matched|No proof harnesses|matched 0|No harnesses", out, re.I):
            return "ERROR", "the harness filter matched no harness", []
        return "ERROR", f"Kani did not reach verification (exit {r['rc']})", []
    if nchk > 1:
        return "ERROR", f"the harness filter matched {nchk} harnesses", []
    if "CBMC timed out" in out:
        return "TIMEOUT", "CBMC timed out", []
    if re.search(r"out of memory|std::bad_alloc|Killed|terminated by signal|memory exhausted", out):
        return "ERROR", "CBMC crashed / out of memory", []
    ok = "VERIFICATION:- SUCCESSFUL" in out
    bad = "VERIFICATION:- FAILED" in out
    checks = _failed_checks(out)
    if ok and not bad and not checks:
        return "SUCCESS", "", []
    if bad:
        if "CBMC failed" in out and not checks:
            return "ERROR", "CBMC failed without a property result", []
        unwind = [c for c in checks if "unwinding assertion" in c[0]]
        unsup = [c for c in checks if UNSUPPORTED.search(c[0])]
        # assertions inside CBMC's own C library models (e.g. `feraiseexcept` reached from its unfused
        # `fma` model on inf*0) are artefacts of the model, not obligations of the crate
        lib = [c for c in checks if "<builtin-library-" in c[1]]
        real = [c for c in checks if c not in unwind and c not in unsup and c not in lib]
        if real:
            return "FAILED", "", checks
        if lib and not unwind and not unsup and allow_lib:
            return "SUCCESS", "only assertions of CBMC's built-in library models failed (allowed by the harness spec: A-cbmc-fma)", checks
        if lib and not unwind and not unsup:
            return "ERROR", "only assertions of CBMC's built-in library models failed (not a property of the crate)", checks
        if unwind:
            return "ERROR", "unwinding assertion failed: the harness bound is too small for the current code", checks
        if unsup:
            return "ERROR", "a construct unsupported by Kani is reachable", checks
        return "ERROR", "VERIFICATION FAILED without an attributable failed check", checks
    return "ERROR", f"no verification verdict in the output (exit {r['rc']})", checks


def _tail(out, n=60):
    ls = _strip(out).splitlines()
    keep = []
    # summary + failed checks first, then the tail
    for i, l in enumerate(ls):
        if l.startswith("SUMMARY:") or l.startswith("Failed Checks:") or l.startswith("VERIFICATION:-") or \
                l.startswith(" ** ") or l.startswith("Verification Time") or (l.lstrip().startswith("File:") and i and ls[i - 1].startswith("Failed Checks:")):
            keep.append(l)
    tail = ls[-n:]
    return "\n".join(keep + ["---- tail ----"] + tail)[-6000:]


def _decode(vec):
    b = bytes(vec)
    if len(b) == 8:
        u = struct.unpack("<Q", b)[0]
        i = struct.unpack("<q", b)[0]
        f = struct.unpack("<d", b)[0]
        return f"u64={u} i64={i} f64={f!r} bits=0x{u:016x}"
    if len(b) == 4:
        return f"u32={struct.unpack('<I', b)[0]} f32={struct.unpack('<f', b)[0]!r}"
    if len(b) == 2:
        return f"u16={struct.unpack('<H', b)[0]}"
    if len(b) == 1:
        return f"u8={b[0]}"
    return "bytes=" + b.hex()


def parse_playback(out):
    """The unit test printed by --concrete-playback=print, plus the kani::any() values decoded in order."""
    m = re.search(r"Concrete playback unit test for `[^`]*`:\s*```\s*(.*?)```", out, re.S)
    if not m:
        m = re.search(r"(#\[test\]\s*fn kani_concrete_playback_.*?\n\}\n)", out, re.S)
    if not m:
        return None
    test = m.group(1).strip()
    vals = []
    for vm in re.finditer(r"vec!\[([0-9,\s]*)\]", test):
        body = vm.group(1).strip()
        if "vec!" in body:
            continue
        nums = [int(x) for x in body.replace("\n", " ").split(",") if x.strip()]
        vals.append(nums)
    # the outer vec![ vec![..], ... ] also matches nothing (contains 'vec!'), inner ones are the values
    dec = [f"  any#{k}: {_decode(v)}" for k, v in enumerate(vals)]
    return test + "\n\nkani::any() values in call order (little-endian):\n" + "\n".join(dec)


# ------------------------------------------------------------------------------------------------
# one harness
# ------------------------------------------------------------------------------------------------
def _harness_cmd(spec, extra=()):
    h = spec["harness"]
    exact = spec.get("exact")
    if exact is None:
        exact = h.count("::") >= 2 and not h.startswith("verif_kani")
    cmd = ["cargo", "kani"] + BASE_ARGS + (["--exact"] if exact else []) + ["--harness", h]
    cmd += list(spec.get("flags", [])) + list(extra)
    return cmd


def run_harness(spec, scratch, note=""):
    h = spec["harness"]
    res = {"harness": h, "status": "ERROR", "complete": bool(spec.get("complete", False)), "bound": spec.get("bound"),
           "time_s": 0.0, "detail": "", "concrete": None, "native_replay": None, "cmd": ""}
    timeout_s = float(spec.get("timeout_s", 600))
    mem_gb = float(spec.get("mem_gb", DEFAULT_MEM_GB))
    cmd = _harness_cmd(spec)
    res["cmd"] = _cmd_string(cmd)
    logdir = os.path.join(os.path.dirname(scratch), "logs")
    os.makedirs(logdir, exist_ok=True)
    log = os.path.join(logdir, re.sub(r"[^A-Za-z0-9_.-]+", "_", h) + ".log")
    try:
        r = _run_watched(cmd, scratch, log, timeout_s, mem_gb)
    except Exception as e:  # noqa: BLE001 - anything here is an infrastructure error, never a violation
        res["detail"] = f"could not run Kani: {e!r}"
        return res
    status, reason, checks = classify(r, bool(spec.get("allow_builtin_library_failures")))
    res["status"] = status
    res["time_s"] = round(r["verify_s"] if r["verify_s"] else r["wall_s"], 2)
    res["wall_s"] = round(r["wall_s"], 2)
    res["cpu_s"] = round(r["cpu_s"], 2)
    res["peak_rss_mb"] = int(r["peak_rss"] / (1 << 20))
    res["failed_checks"] = [f"{d} @ {loc}" for d, loc in checks]
    head = (reason + "\n") if reason else ""
    if note:
        head += f"[scratch: {note}]\n"
    res["detail"] = head + _tail(r["out"])
    if status == "FAILED":
        pb = ["-Z", "concrete-playback", "--concrete-playback=print"]
        pcmd = _harness_cmd(spec, pb)
        try:
            pr = _run_watched(pcmd, scratch, log + ".playback", timeout_s * 2, mem_gb)
            conc = parse_playback(pr["out"])
            if not conc and "--solver" in spec.get("flags", []):
                # SMT back-ends print no counterexample values; *finding* a violating input is the easy
                # direction, so retry the playback on the default SAT back-end
                fl = list(spec["flags"])
                k = fl.index("--solver")
                del fl[k:k + 2]
                pcmd = _harness_cmd(dict(spec, flags=fl), pb)
                pr = _run_watched(pcmd, scratch, log + ".playback2", timeout_s * 2, mem_gb)
                conc = parse_playback(pr["out"])
            if conc:
                res["concrete"] = conc + "\n\nplayback cmd: " + _cmd_string(pcmd)
            else:
                res["detail"] += "\n[concrete playback produced no test: " + (pr["why"] or "no counterexample values printed") + "]"
        except Exception as e:  # noqa: BLE001
            res["detail"] += f"\n[concrete playback could not run: {e!r}]"
    return res


# ------------------------------------------------------------------------------------------------
# interface
# ------------------------------------------------------------------------------------------------
def select(specs, tier):
    return [s for s in specs if tier in s.get("tiers", ["quick", "thorough"])]


def run_for_property(pid, specs, tier, seed):
    """Run the harnesses of `specs` registered for `tier`.  `seed` is recorded only: Kani/CBMC with
    CaDiCaL are deterministic for a fixed program."""
    chosen = select(specs, tier)
    if not chosen:
        return []
    try:
        scratch, note = prepare_scratch()
    except Exception as e:  # noqa: BLE001
        return [{"harness": s["harness"], "status": "ERROR", "complete": bool(s.get("complete", False)),
                 "bound": s.get("bound"), "time_s": 0.0, "detail": f"scratch copy / hooks: {e}", "concrete": None,
                 "native_replay": None, "cmd": ""} for s in chosen]
    with ThreadPoolExecutor(max_workers=MAX_JOBS) as ex:
        return list(ex.map(lambda s: run_harness(s, scratch, note), chosen))


def load_specs():
    """Harness specs for the CLI: what is registered in props.json (`kani` key of each property) plus the entries of
    kani/specs.json (work area) whose harness is not registered yet."""
    with open(SPECS_FILE) as f:
        specs = json.load(f)
    try:
        with open(os.path.join(os.path.dirname(os.path.dirname(os.path.abspath(__file__))), "props.json")) as f:
            props = json.load(f)
        for pid, v in props.items():
            reg = v.get("kani", []) if isinstance(v, dict) else []
            names = {s["harness"] for s in reg}
            specs[pid] = list(reg) + [s for s in specs.get(pid, []) if s["harness"] not in names]
    except Exception:  # noqa: BLE001
        pass
    return specs


def main(argv):
    import argparse
    ap = argparse.ArgumentParser(prog="python3 -m vx.kani")
    ap.add_argument("pid")
    ap.add_argument("--tier", default="quick", choices=["quick", "thorough"])
    ap.add_argument("--only", default=None, help="run only harnesses whose name contains this substring")
    ap.add_argument("--all-tiers", action="store_true", help="ignore the tier registration")
    ap.add_argument("--json", action="store_true")
    ap.add_argument("--seed", type=int, default=0)
    a = ap.parse_args(argv)
    specs = load_specs().get(a.pid, [])
    if a.only:
        specs = [s for s in specs if a.only in s["harness"]]
    if a.all_tiers:
        specs = [dict(s, tiers=["quick", "thorough"]) for s in specs]
    res = run_for_property(a.pid, specs, a.tier, a.seed)
    if a.json:
        print(json.dumps(res, indent=1))
    else:
        for r in res:
            kind = "complete" if r["complete"] else f"bounded [{r['bound']}]"
            print(f"{r['status']:8s} {r['harness']}  ({kind})  verify {r['time_s']}s  cpu {r.get('cpu_s')}s  "
                  f"peak {r.get('peak_rss_mb')} MB")
            if r["status"] != "SUCCESS":
                print("    " + r["detail"].replace("\n", "\n    "))
            if r.get("concrete"):
                print("    CONCRETE:\n    " + r["concrete"].replace("\n", "\n    "))
        print(f"{sum(1 for r in res if r['status'] == 'SUCCESS')}/{len(res)} harnesses successful (tier {a.tier})")
    if any(r["status"] == "FAILED" for r in res):
        return 1
    if any(r["status"] != "SUCCESS" for r in res):
        return 2
    return 0


if __name__ == "__main__":
    sys.exit(main(sys.argv[1:]))
